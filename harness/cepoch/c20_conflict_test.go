package cepoch

import (
	"bytes"
	"crypto/sha256"
	"encoding/binary"
	"fmt"
	"sort"
	"strings"
	"testing"

	"cosmossdk.io/math"
	sdk "github.com/cosmos/cosmos-sdk/types"
	"github.com/lavanet/lava/v5/testutil/common"
	"github.com/lavanet/lava/v5/utils/sigs"
	conflicttypes "github.com/lavanet/lava/v5/x/conflict/types"
	epochstoragetypes "github.com/lavanet/lava/v5/x/epochstorage/types"
	pairingtypes "github.com/lavanet/lava/v5/x/pairing/types"
	"pgregory.net/rapid"

	"verifharness/internal/chain"
	"verifharness/internal/ev"
)

// C20: conflict votes follow commit-reveal and stake majority.
//
// The model is written from the statement: a vote is in state commit, reveal or closed; it
// changes state only while an epoch start at/after its deadline is processed; a commit is
// accepted iff it comes from a listed voter, in the commit state, for the first time; a reveal
// is accepted iff the vote is in the reveal state, the voter committed, has not revealed yet
// and sha256(nonce || data hash || voter address) equals the committed bytes (computed here,
// independently of conflicttypes.CommitVoteData); the outcome is the option holding more than
// half of the stake of all listed voters, voters that never revealed count for no option.

const (
	c20Commit = 0
	c20Reveal = 1
	c20Closed = 2
)

// own implementation of the documented commit hash (nonce little endian, data hash, address)
func c20CommitHash(nonce int64, dataHash []byte, addr string) []byte {
	var b [8]byte
	binary.LittleEndian.PutUint64(b[:], uint64(nonce))
	h := sha256.New()
	h.Write(b[:])
	h.Write(dataHash)
	h.Write([]byte(addr))
	return h.Sum(nil)
}

type c20Voter struct {
	addr      string
	name      string
	stake     math.Int
	committed bool
	hash      []byte // committed bytes
	nonce     int64  // preimage used for an honest commit
	data      []byte // data hash used for an honest commit (nil: forged commit, no preimage)
	revealed  bool
	option    int64 // conflicttypes.Provider0 / Provider1 / NoneOfTheProviders once revealed

	planCommit, planReveal bool   // generator plan for the bulk actions
	planOpt                string // "p0", "p1", "none"
}

type c20Vote struct {
	id         string
	state      int
	detectH    uint64
	deadline   uint64
	voters     []*c20Voter
	first      string
	second     string
	h0, h1     []byte // data hashes whose sigs.HashMsg equal the stored responses
	outOfPhase int
	duplicates int
	forged     int
	mismatched int
	closedAt   uint64
	resolved   string
}

func (v *c20Vote) voter(addr string) *c20Voter {
	for _, x := range v.voters {
		if x.addr == addr {
			return x
		}
	}
	return nil
}

type c20Model struct {
	rt       *rapid.T
	t        *testing.T
	w        *chain.World
	col      *ev.Collector
	votes    []*c20Vote
	byID     map[string]*c20Vote
	evIdx    int
	eb       uint64
	vp       uint64
	punished map[string]bool // voters that were punished as non-voters (may be jailed/frozen later)
	cons     *chain.Cons
}

func (m *c20Model) fail(format string, args ...any) {
	m.rt.Fatalf("%s", ev.Violation("C20", "%s\n height=%d\n votes: %s\n history (tail):\n  %s", fmt.Sprintf(format, args...), m.w.C.Height(), m.describe(), histString(m.w.C, 45)))
}

func (m *c20Model) describe() string {
	var out []string
	for _, v := range m.votes {
		var vs []string
		for _, x := range v.voters {
			vs = append(vs, fmt.Sprintf("%s(stake=%s,committed=%v,revealed=%v,opt=%d)", x.name, x.stake, x.committed, x.revealed, x.option))
		}
		out = append(out, fmt.Sprintf("{%s state=%d detectedAt=%d deadline=%d voters=[%s]}", short(v.id), v.state, v.detectH, v.deadline, strings.Join(vs, " ")))
	}
	return strings.Join(out, " ")
}

func (m *c20Model) provName(addr string) string {
	if p := m.w.ProvByAddr(addr); p != nil {
		return p.Name
	}
	if m.cons != nil && m.cons.Addr() == addr {
		return "consumer"
	}
	return short(addr)
}

// expected outcome of a vote from the model: option stakes, total, winner ("" = unresolved)
func (v *c20Vote) outcome() (first, second, none, total math.Int, noVoters int, winner string) {
	first, second, none, total = math.ZeroInt(), math.ZeroInt(), math.ZeroInt(), math.ZeroInt()
	for _, x := range v.voters {
		total = total.Add(x.stake)
		if !x.revealed {
			noVoters++
			continue
		}
		switch x.option {
		case conflicttypes.Provider0:
			first = first.Add(x.stake)
		case conflicttypes.Provider1:
			second = second.Add(x.stake)
		default:
			none = none.Add(x.stake)
		}
	}
	two := math.NewInt(2)
	switch {
	case first.Mul(two).GT(total):
		winner = v.first
	case second.Mul(two).GT(total):
		winner = v.second
	case none.Mul(two).GT(total):
		winner = "None"
	}
	return
}

func attr(e sdk.Event, key string) (string, bool) {
	for _, a := range e.Attributes {
		if a.Key == key {
			return a.Value, true
		}
	}
	return "", false
}

// onBlock compares every open vote with the model after BeginBlock of the new height.
func (m *c20Model) onBlock() {
	c := m.w.C
	ts := c.TS
	h := c.Height()
	epochStart := ts.Keepers.Epochstorage.GetEpochStart(ts.Ctx) == h
	events := ts.Ctx.EventManager().Events()
	newEvents := events[m.evIdx:]
	m.evIdx = len(events)

	resolution := map[string][]sdk.Event{}
	revealStarted := map[string][]sdk.Event{}
	for _, e := range newEvents {
		switch e.Type {
		case "lava_" + conflicttypes.ConflictVoteResolvedEventName, "lava_" + conflicttypes.ConflictVoteUnresolvedEventName:
			id, _ := attr(e, "voteID")
			resolution[id] = append(resolution[id], e)
		case "lava_" + conflicttypes.ConflictVoteRevealEventName:
			id, _ := attr(e, "voteID")
			revealStarted[id] = append(revealStarted[id], e)
		}
	}
	for id := range resolution {
		v := m.byID[id]
		if v == nil || v.state != c20Reveal || !(epochStart && h >= v.deadline) {
			m.fail("resolution event for vote %s emitted at height %d (epochStart=%v) although the vote is not in its reveal state past the deadline", short(id), h, epochStart)
		}
	}
	for id := range revealStarted {
		v := m.byID[id]
		if v == nil || v.state != c20Commit || !(epochStart && h >= v.deadline) {
			m.fail("reveal-started event for vote %s emitted at height %d (epochStart=%v) although the vote is not in its commit state past the deadline", short(id), h, epochStart)
		}
	}

	for _, v := range m.votes {
		if v.state == c20Closed {
			m.col.Clause("closed-vote-stays-closed")
			if _, found := ts.Keepers.Conflict.GetConflictVote(ts.Ctx, v.id); found && h < v.closedAt+m.eb {
				m.fail("vote %s closed at %d exists again at %d", short(v.id), v.closedAt, h)
			}
			continue
		}
		rec, found := ts.Keepers.Conflict.GetConflictVote(ts.Ctx, v.id)
		due := epochStart && h >= v.deadline
		m.col.Clause("state-changes-only-at-epoch-start-after-deadline")
		if !due {
			if !found {
				m.fail("vote %s (state %d, deadline %d) disappeared at height %d, which is not an epoch start at/after its deadline (epochStart=%v)", short(v.id), v.state, v.deadline, h, epochStart)
			}
			if int(rec.VoteState) != v.state {
				m.fail("vote %s changed state %d -> %d at height %d, which is not an epoch start at/after its deadline %d (epochStart=%v)", short(v.id), v.state, rec.VoteState, h, v.deadline, epochStart)
			}
			if rec.VoteDeadline != v.deadline {
				m.fail("vote %s changed its deadline %d -> %d at height %d without a state change", short(v.id), v.deadline, rec.VoteDeadline, h)
			}
			continue
		}
		m.col.Clause("state-changes-at-first-epoch-start-after-deadline")
		switch v.state {
		case c20Commit:
			if !found || rec.VoteState != conflicttypes.StateReveal {
				m.fail("vote %s did not move from commit to reveal at epoch start %d >= deadline %d (found=%v state=%d)", short(v.id), h, v.deadline, found, rec.VoteState)
			}
			m.col.Clause("reveal-period-lasts-vote-period-epochs")
			if rec.VoteDeadline < h+m.vp*m.eb {
				m.fail("vote %s entered reveal at %d with deadline %d, shorter than VotePeriod=%d epochs of %d blocks", short(v.id), h, rec.VoteDeadline, m.vp, m.eb)
			}
			if len(revealStarted[v.id]) != 1 {
				m.fail("vote %s entered reveal at %d with %d reveal-started events (expected 1)", short(v.id), h, len(revealStarted[v.id]))
			}
			v.state, v.deadline = c20Reveal, rec.VoteDeadline
			m.compareRecord(v, "after the transition to reveal")
		case c20Reveal:
			if found {
				m.fail("vote %s was not closed at epoch start %d >= reveal deadline %d", short(v.id), h, v.deadline)
			}
			m.checkResolution(v, resolution[v.id])
			v.state, v.closedAt = c20Closed, h
			for _, x := range v.voters {
				if !x.revealed {
					m.punished[x.addr] = true
				}
			}
		}
	}
}

func (m *c20Model) checkResolution(v *c20Vote, evs []sdk.Event) {
	m.col.Clause("outcome-is-option-with-more-than-half-of-listed-stake")
	if len(evs) != 1 {
		m.fail("vote %s closed with %d resolution events (expected exactly 1)", short(v.id), len(evs))
	}
	e := evs[0]
	first, second, none, total, noVoters, winner := v.outcome()
	wantType := "lava_" + conflicttypes.ConflictVoteUnresolvedEventName
	if winner != "" {
		wantType = "lava_" + conflicttypes.ConflictVoteResolvedEventName
	}
	gotWinner, _ := attr(e, "winner")
	desc := fmt.Sprintf("model: first=%s second=%s none=%s total=%s non-voters=%d winner=%q; event %s %v", first, second, none, total, noVoters, winner, e.Type, e.Attributes)
	if e.Type != wantType {
		m.fail("vote %s: wrong resolution: %s", short(v.id), desc)
	}
	if winner != "" && gotWinner != winner {
		m.fail("vote %s: wrong winner %q: %s", short(v.id), gotWinner, desc)
	}
	if winner == "" && gotWinner != "" {
		m.fail("vote %s: unresolved vote names a winner: %s", short(v.id), desc)
	}
	m.col.Clause("never-revealed-voters-count-as-non-voters")
	for key, want := range map[string]string{
		"FirstProviderVotes": first.String(), "SecondProviderVotes": second.String(), "NoneProviderVotes": none.String(),
		"TotalVotes": total.String(), "NumOfNoVoters": fmt.Sprint(noVoters), "NumOfVoters": fmt.Sprint(len(v.voters) - noVoters),
	} {
		if got, ok := attr(e, key); !ok || got != want {
			m.fail("vote %s: resolution event attribute %s=%q, expected %q: %s", short(v.id), key, got, want, desc)
		}
	}
	v.resolved = e.Type + ":" + gotWinner
}

// compareRecord checks the stored vote against the model (votes of every listed voter).
func (m *c20Model) compareRecord(v *c20Vote, where string) {
	ts := m.w.C.TS
	rec, found := ts.Keepers.Conflict.GetConflictVote(ts.Ctx, v.id)
	m.col.Clause("record-matches-model")
	if !found {
		m.fail("%s: open vote %s has no record", where, short(v.id))
	}
	if int(rec.VoteState) != v.state || rec.VoteDeadline != v.deadline {
		m.fail("%s: vote %s record state=%d deadline=%d, model state=%d deadline=%d", where, short(v.id), rec.VoteState, rec.VoteDeadline, v.state, v.deadline)
	}
	if len(rec.Votes) != len(v.voters) {
		m.fail("%s: vote %s lists %d voters, had %d at detection", where, short(v.id), len(rec.Votes), len(v.voters))
	}
	for i, rv := range rec.Votes {
		x := v.voters[i]
		if rv.Address != x.addr {
			m.fail("%s: vote %s voter %d is %s, was %s at detection", where, short(v.id), i, rv.Address, x.addr)
		}
		want := int64(conflicttypes.NoVote)
		if x.revealed {
			want = x.option
		} else if x.committed {
			want = conflicttypes.Commit
		}
		if rv.Result != want {
			m.fail("%s: vote %s voter %s has result %d, model says %d (committed=%v revealed=%v)", where, short(v.id), x.name, rv.Result, want, x.committed, x.revealed)
		}
		if x.committed && !bytes.Equal(rv.Hash, x.hash) {
			m.fail("%s: vote %s voter %s stored commit %x differs from the committed bytes %x", where, short(v.id), x.name, rv.Hash, x.hash)
		}
		if !x.committed && len(rv.Hash) != 0 {
			m.fail("%s: vote %s voter %s has a stored commit %x without an accepted commit", where, short(v.id), x.name, rv.Hash)
		}
	}
}

func TestC20(t *testing.T) {
	col := ev.For("C20")
	col.SetRule("a generated chain (1 spec with data reliability, 4-8 providers with uneven/near-equal stakes and optional delegations, 1 consumer, VotePeriod 1-3) receives one to three response-conflict detections built with the repository's CreateResponseConflictMsgDetectionForTest (fresh or stale, duplicate index), then a rapid action sequence of commits (listed voter / conflicting provider / consumer / outsider; honest for option 0, 1 or none, forged bytes, empty, copied from another voter), reveals (matching, wrong nonce, wrong data, someone else's preimage, without commit, repeated) and block/epoch advances; after the sequence the chain is advanced until every vote is closed; every message's acceptance, the stored record after every step, every state change per block and the resolution event are compared with the model; non-trivial = the history has at least one out-of-phase or duplicate message, at least one accepted reveal, and at least one vote reached closure; distinct = distinct action histories")
	col.Assume("transactions run atomically; providers neither unstake nor freeze during a vote (voters jailed as non-voters of an earlier vote may be missing from later voter lists)",
		"counted stake = stake + delegations of every listed voter in the epoch snapshot of the conflict's epoch, read at detection time (vote.go sums all listed voters)",
		"deadlines are read from the stored vote; they are required to be at least VotePeriod epochs after detection / after the transition",
		"a chain halt ends the case (C37)")
	rapid.Check(t, func(rt *rapid.T) { propC20(rt, t, col) })
}

func propC20(rt *rapid.T, t *testing.T, col *ev.Collector) {
	seed := int64(rapid.IntRange(1, 1<<30).Draw(rt, "chainSeed"))
	c := chain.New(t, seed)
	ts := c.TS
	w := &chain.World{C: c, Keys: map[string]sigs.Account{}, NextSess: 1}
	w.Cfg.MaxCU = 1_000_000
	c.AdvanceBlock(0)
	sp := chain.MakeSpec("SP0", false, 1000, c.Denom())
	ts.AddSpec(sp.Index, sp)
	w.Specs = append(w.Specs, sp)
	val, _ := ts.AddAccount(common.VALIDATOR, 0, 10_000_000_000)
	ts.TxCreateValidator(val, math.NewInt(1_000_000_000))
	w.Validators = append(w.Validators, val)

	// conflict params: vote period 1..3
	cp := ts.Keepers.Conflict.GetParams(ts.Ctx)
	cp.VotePeriod = uint64(rapid.IntRange(1, 3).Draw(rt, "votePeriod"))
	ts.Keepers.Conflict.SetParams(ts.Ctx, cp)

	plan := w.GenPlan(rt, "plan0", "plan0")
	if err := ts.TxProposalAddPlans(plan); err != nil {
		t.Fatalf("%s", ev.HarnessError("add plan: %v", err))
	}
	w.Plans = append(w.Plans, plan)
	c.AdvanceEpoch()

	nProv := rapid.IntRange(4, 8).Draw(rt, "nProviders")
	base := int64(rapid.SampledFrom([]int{1000, 5000, 100000}).Draw(rt, "baseStake"))
	for i := 0; i < nProv; i++ {
		acc := w.NewAccount(10_000_000_000)
		if rapid.Bool().Draw(rt, fmt.Sprintf("prov%d_ownVault", i)) {
			self := acc
			acc.Vault = &self
		} else {
			v := w.NewAccount(10_000_000_000)
			acc.Vault = &v
		}
		w.Keys[acc.Addr.String()] = acc
		p := &chain.Prov{Name: fmt.Sprintf("prov%d", i), Acc: acc}
		w.Providers = append(w.Providers, p)
		stake := base*int64(rapid.SampledFrom([]int{1, 1, 1, 2, 3, 10}).Draw(rt, fmt.Sprintf("prov%d_mul", i))) + int64(rapid.SampledFrom([]int{0, 0, 1, 7}).Draw(rt, fmt.Sprintf("prov%d_add", i)))
		eps := []epochstoragetypes.Endpoint{{IPPORT: "10.0.0.1:443", Geolocation: 1, ApiInterfaces: []string{chain.IfJSON}}}
		if err := w.StakeProvider(p, sp.Index, stake, 1, eps, uint64(rapid.SampledFrom([]int{0, 50, 100}).Draw(rt, fmt.Sprintf("prov%d_comm", i))), val); err != nil {
			t.Fatalf("%s", ev.HarnessError("stake failed: %v", err))
		}
	}
	nDel := rapid.IntRange(0, 2).Draw(rt, "nDelegators")
	for i := 0; i < nDel; i++ {
		w.Delegators = append(w.Delegators, w.NewAccount(10_000_000_000))
	}
	consAcc := w.NewAccount(10_000_000_000)
	cons := &chain.Cons{Name: "cons0", Acc: consAcc, Devs: []sigs.Account{consAcc}}
	w.Consumers = append(w.Consumers, cons)
	if _, err := ts.TxSubscriptionBuy(cons.Addr(), cons.Addr(), plan.Index, 3, false, false); err != nil {
		t.Fatalf("%s", ev.HarnessError("subscription: %v", err))
	}
	outsider := w.NewAccount(1_000_000)
	for i := 0; i < nDel; i++ {
		w.ActDualDelegate(rt)
	}
	c.AdvanceEpoch()
	c.AdvanceEpoch()
	c.Hist = nil
	if c.Halt != "" {
		rt.Skip("halted during setup")
	}

	m := &c20Model{rt: rt, t: t, w: w, col: col, byID: map[string]*c20Vote{}, punished: map[string]bool{}, cons: cons}
	m.eb = ts.Keepers.Epochstorage.EpochBlocksRaw(ts.Ctx)
	m.vp = cp.VotePeriod
	m.evIdx = len(ts.Ctx.EventManager().Events())
	c.BlockHook = m.onBlock

	nonceSeq := int64(1000)
	acceptedReveals, acceptedCommits, rejected := 0, 0, 0

	detect := func(rt *rapid.T) {
		if len(m.votes) >= 3 {
			rt.Skip("enough votes")
		}
		i0 := rapid.IntRange(0, len(w.Providers)-1).Draw(rt, "p0")
		i1 := rapid.IntRange(0, len(w.Providers)-2).Draw(rt, "p1")
		if i1 >= i0 {
			i1++
		}
		p0, p1 := w.Providers[i0], w.Providers[i1]
		if len(m.votes) > 0 && rapid.IntRange(0, 3).Draw(rt, "sameIndexAgain") == 0 {
			// aim at the index of an existing vote (same pair; same epoch if sent soon enough)
			last := m.votes[len(m.votes)-1]
			p0, p1 = w.ProvByAddr(last.first), w.ProvByAddr(last.second)
		}
		spec := w.Specs[0]
		msg, reply0, reply1, err := common.CreateResponseConflictMsgDetectionForTest(ts.GoCtx, cons.Acc, p0.Acc, p1.Acc, &spec)
		if err != nil {
			t.Fatalf("%s", ev.HarnessError("cannot build detection: %v", err))
		}
		rc := msg.GetResponseConflict()
		h0 := sigs.HashMsg(pairingtypes.NewRelayExchange(*rc.ConflictRelayData0.Request, *reply0).DataToSign())
		h1 := sigs.HashMsg(pairingtypes.NewRelayExchange(*rc.ConflictRelayData1.Request, *reply1).DataToSign())
		relayEpoch := uint64(rc.ConflictRelayData0.Request.RelaySession.Epoch)
		// optionally let the detection age before it is sent
		switch rapid.SampledFrom([]string{"now", "now", "now", "blocks", "blocks", "epoch", "stale"}).Draw(rt, "detectDelay") {
		case "blocks":
			c.AdvanceBlocks(rapid.IntRange(1, 5).Draw(rt, "delayBlocks"), 0)
		case "epoch":
			c.AdvanceEpoch()
		case "stale":
			c.AdvanceEpochs(int(cp.VoteStartSpan) + 1)
		}
		if c.Halt != "" {
			return
		}
		err = c.Tx(fmt.Sprintf("detection(%s vs %s, relayEpoch=%d)", p0.Name, p1.Name, relayEpoch), msg.ValidateBasic, func() error {
			_, e := ts.Servers.ConflictServer.Detection(ts.GoCtx, msg)
			return e
		})
		epochStart, _, e2 := ts.Keepers.Epochstorage.GetEpochStartForBlock(ts.Ctx, relayEpoch)
		if e2 != nil {
			return
		}
		id := cons.Addr() + p0.Addr() + p1.Addr() + fmt.Sprint(epochStart)
		if old := m.byID[id]; old != nil && old.state != c20Closed {
			m.col.Clause("duplicate-detection-rejected")
			old.duplicates++
			if err == nil {
				m.fail("a second detection for the open vote %s was accepted", short(id))
			}
			m.compareRecord(old, "after a rejected duplicate detection")
			return
		}
		if err != nil {
			col.Class("detection-rejected")
			return
		}
		rec, found := ts.Keepers.Conflict.GetConflictVote(ts.Ctx, id)
		if !found {
			// find it through the event
			for _, e := range c.LastEvents {
				if vid, ok := attr(e, "voteID"); ok {
					id = vid
					rec, found = ts.Keepers.Conflict.GetConflictVote(ts.Ctx, id)
				}
			}
		}
		if !found {
			m.fail("detection accepted but no vote record exists")
		}
		v := &c20Vote{id: id, state: c20Commit, detectH: c.Height(), deadline: rec.VoteDeadline, first: rec.FirstProvider.Account, second: rec.SecondProvider.Account, h0: h0, h1: h1}
		col.Clause("new-vote-starts-in-commit-state")
		if rec.VoteState != conflicttypes.StateCommit {
			m.fail("new vote %s starts in state %d", short(id), rec.VoteState)
		}
		col.Clause("commit-period-lasts-vote-period-epochs")
		if rec.VoteDeadline < c.Height()+m.vp*m.eb {
			m.fail("new vote %s detected at %d has deadline %d, shorter than VotePeriod=%d epochs of %d blocks", short(id), c.Height(), rec.VoteDeadline, m.vp, m.eb)
		}
		if rec.FirstProvider.Account != p0.Addr() || rec.SecondProvider.Account != p1.Addr() ||
			!bytes.Equal(sigs.HashMsg(h0), rec.FirstProvider.Response) || !bytes.Equal(sigs.HashMsg(h1), rec.SecondProvider.Response) {
			t.Fatalf("%s", ev.HarnessError("data hashes of the generated conflict do not match the stored responses"))
		}
		// listed voters: every staked provider except the two in conflict
		col.Clause("voter-list-is-all-other-staked-providers")
		listed := map[string]bool{}
		popular := rapid.SampledFrom([]string{"p0", "p1", "none"}).Draw(rt, "popularOption")
		for _, rv := range rec.Votes {
			if listed[rv.Address] {
				m.fail("vote %s lists voter %s twice", short(id), rv.Address)
			}
			listed[rv.Address] = true
			if rv.Address == p0.Addr() || rv.Address == p1.Addr() {
				m.fail("vote %s lists the conflicting provider %s as a voter", short(id), m.provName(rv.Address))
			}
			if w.ProvByAddr(rv.Address) == nil {
				m.fail("vote %s lists %s, which is not a staked provider", short(id), rv.Address)
			}
			if rv.Result != conflicttypes.NoVote || len(rv.Hash) != 0 {
				m.fail("vote %s starts with a non-empty vote of %s", short(id), m.provName(rv.Address))
			}
			entry, ok := ts.Keepers.Epochstorage.GetStakeEntry(ts.Ctx, epochStart, spec.Index, rv.Address)
			if !ok {
				m.fail("vote %s lists %s, which has no stake entry in the conflict's epoch %d", short(id), m.provName(rv.Address), epochStart)
			}
			x := &c20Voter{addr: rv.Address, name: m.provName(rv.Address), stake: entry.Stake.Amount.Add(entry.DelegateTotal.Amount)}
			x.planCommit = rapid.IntRange(0, 5).Draw(rt, "planCommit_"+x.name) > 0
			x.planReveal = rapid.IntRange(0, 5).Draw(rt, "planReveal_"+x.name) > 0
			x.planOpt = popular
			if rapid.IntRange(0, 2).Draw(rt, "planDissent_"+x.name) == 0 {
				x.planOpt = rapid.SampledFrom([]string{"p0", "p1", "none"}).Draw(rt, "planOpt_"+x.name)
			}
			v.voters = append(v.voters, x)
		}
		for _, p := range w.Providers {
			if p != p0 && p != p1 && !listed[p.Addr()] && !m.punished[p.Addr()] {
				m.fail("vote %s does not list the staked provider %s as a voter", short(id), p.Name)
			}
		}
		m.votes = append(m.votes, v)
		m.byID[id] = v
	}

	// pickVote prefers votes in the given state (so that most messages are in phase).
	pickVote := func(rt *rapid.T, prefer int) *c20Vote {
		if len(m.votes) == 0 {
			rt.Skip("no vote yet")
		}
		var pref []*c20Vote
		for _, v := range m.votes {
			if v.state == prefer {
				pref = append(pref, v)
			}
		}
		if len(pref) > 0 && rapid.IntRange(0, 4).Draw(rt, "anyVote") > 0 {
			return pref[rapid.IntRange(0, len(pref)-1).Draw(rt, "prefVote")]
		}
		return m.votes[rapid.IntRange(0, len(m.votes)-1).Draw(rt, "vote")]
	}
	// pickActor: mostly listed voters for which the message is expected to be useful (want), sometimes
	// other voters, the conflicting providers, the consumer or an outsider.
	pickActor := func(rt *rapid.T, v *c20Vote, want func(*c20Voter) bool) (addr string, name string) {
		switch rapid.SampledFrom([]string{"useful", "useful", "useful", "useful", "useful", "voter", "voter", "conflicting", "consumer", "outsider"}).Draw(rt, "actor") {
		case "useful":
			var pool []*c20Voter
			for _, x := range v.voters {
				if want(x) {
					pool = append(pool, x)
				}
			}
			if len(pool) > 0 {
				x := pool[rapid.IntRange(0, len(pool)-1).Draw(rt, "usefulVoter")]
				return x.addr, x.name
			}
			fallthrough
		case "voter":
			if len(v.voters) == 0 {
				rt.Skip("no voters")
			}
			x := v.voters[rapid.IntRange(0, len(v.voters)-1).Draw(rt, "voter")]
			return x.addr, x.name
		case "conflicting":
			if rapid.Bool().Draw(rt, "second") {
				return v.second, m.provName(v.second)
			}
			return v.first, m.provName(v.first)
		case "consumer":
			return cons.Addr(), "consumer"
		default:
			return outsider.Addr.String(), "outsider"
		}
	}
	dataFor := func(v *c20Vote, opt string) []byte {
		switch opt {
		case "p0":
			return v.h0
		case "p1":
			return v.h1
		default:
			return sigs.HashMsg([]byte("some other response " + opt))
		}
	}

	// doCommit sends one commit and compares its acceptance and the stored record with the model.
	doCommit := func(v *c20Vote, addr, name, kind string, nonce int64, data, hash []byte) {
		msg := &conflicttypes.MsgConflictVoteCommit{Creator: addr, VoteID: v.id, Hash: hash}
		err := c.Tx(fmt.Sprintf("commit(%s by %s kind=%s nonce=%d)", short(v.id), name, kind, nonce), msg.ValidateBasic, func() error {
			_, e := ts.Servers.ConflictServer.ConflictVoteCommit(ts.GoCtx, msg)
			return e
		})
		x := v.voter(addr)
		want := v.state == c20Commit && x != nil && !x.committed
		col.Clause("commit-accepted-iff-listed-voter-in-commit-state-first-time")
		if (err == nil) != want {
			m.fail("commit by %s on vote %s (state %d, listed=%v, alreadyCommitted=%v) accepted=%v, expected %v (err: %v)", name, short(v.id), v.state, x != nil, x != nil && x.committed, err == nil, want, err)
		}
		if err == nil {
			acceptedCommits++
			x.committed, x.hash, x.nonce, x.data = true, hash, nonce, data
			if kind == "forged" || kind == "empty" {
				x.data = nil
			}
			if kind == "forged" || kind == "empty" || kind == "copy" {
				v.forged++
			}
		} else {
			rejected++
			if v.state != c20Commit {
				v.outOfPhase++
			} else if x != nil && x.committed {
				v.duplicates++
			}
		}
		if v.state != c20Closed {
			m.compareRecord(v, "after commit")
		}
	}
	honestCommit := func(v *c20Vote, addr, name, opt string) {
		nonceSeq++
		nonce := nonceSeq
		if nonce%7 == 0 {
			nonce = -nonce
		}
		data := dataFor(v, opt)
		hash := c20CommitHash(nonce, data, addr)
		col.Clause("commit-hash-is-sha256(nonce,data,address)")
		if own := conflicttypes.CommitVoteData(nonce, data, addr); !bytes.Equal(own, hash) {
			m.fail("CommitVoteData(%d, %x, %s) = %x differs from sha256(nonce LE || data hash || address) = %x", nonce, data, addr, own, hash)
		}
		doCommit(v, addr, name, opt, nonce, data, hash)
	}

	commit := func(rt *rapid.T) {
		v := pickVote(rt, c20Commit)
		addr, name := pickActor(rt, v, func(x *c20Voter) bool { return !x.committed })
		kind := rapid.SampledFrom([]string{"p0", "p0", "p0", "p1", "p1", "p1", "none", "forged", "empty", "copy"}).Draw(rt, "commitKind")
		switch kind {
		case "forged":
			nonceSeq++
			doCommit(v, addr, name, kind, 0, nil, sigs.HashMsg([]byte(fmt.Sprintf("forged %d", nonceSeq))))
		case "empty":
			doCommit(v, addr, name, kind, 0, nil, nil)
		case "copy":
			// replay the committed bytes of another voter; reveals with the victim's preimage must not match
			var src *c20Voter
			for _, x := range v.voters {
				if x.committed && x.addr != addr && len(x.hash) > 0 {
					src = x
				}
			}
			if src == nil {
				rt.Skip("nothing to copy")
			}
			doCommit(v, addr, name, kind, src.nonce, src.data, src.hash)
		default:
			honestCommit(v, addr, name, kind)
		}
	}

	doReveal := func(v *c20Vote, addr, name, kind string, nonce int64, data []byte) {
		x := v.voter(addr)
		msg := &conflicttypes.MsgConflictVoteReveal{Creator: addr, VoteID: v.id, Nonce: nonce, Hash: data}
		err := c.Tx(fmt.Sprintf("reveal(%s by %s kind=%s nonce=%d)", short(v.id), name, kind, nonce), msg.ValidateBasic, func() error {
			_, e := ts.Servers.ConflictServer.ConflictVoteReveal(ts.GoCtx, msg)
			return e
		})
		matches := x != nil && x.committed && len(x.hash) > 0 && bytes.Equal(c20CommitHash(nonce, data, addr), x.hash)
		want := v.state == c20Reveal && x != nil && x.committed && !x.revealed && matches
		col.Clause("reveal-accepted-iff-reveal-state-and-matches-own-commit")
		if (err == nil) != want {
			m.fail("reveal by %s on vote %s (state %d, listed=%v, committed=%v, revealed=%v, matchesCommit=%v) accepted=%v, expected %v (err: %v)",
				name, short(v.id), v.state, x != nil, x != nil && x.committed, x != nil && x.revealed, matches, err == nil, want, err)
		}
		if err == nil {
			acceptedReveals++
			x.revealed = true
			switch {
			case bytes.Equal(data, v.h0):
				x.option = conflicttypes.Provider0
			case bytes.Equal(data, v.h1):
				x.option = conflicttypes.Provider1
			default:
				x.option = conflicttypes.NoneOfTheProviders
			}
		} else {
			rejected++
			if v.state != c20Reveal {
				v.outOfPhase++
			} else if x != nil && x.revealed {
				v.duplicates++
			} else if x != nil && x.committed {
				v.mismatched++
			}
		}
		if v.state != c20Closed {
			m.compareRecord(v, "after reveal")
		}
	}

	reveal := func(rt *rapid.T) {
		v := pickVote(rt, c20Reveal)
		addr, name := pickActor(rt, v, func(x *c20Voter) bool { return x.committed && !x.revealed && x.data != nil })
		x := v.voter(addr)
		kind := rapid.SampledFrom([]string{"match", "match", "match", "match", "match", "match", "wrongNonce", "wrongData", "otherVoter", "fresh"}).Draw(rt, "revealKind")
		var nonce int64
		var data []byte
		switch {
		case kind == "fresh" || x == nil || !x.committed || x.data == nil:
			kind = "fresh"
			nonce = int64(rapid.IntRange(1, 5).Draw(rt, "freshNonce"))
			data = dataFor(v, rapid.SampledFrom([]string{"p0", "p1", "none"}).Draw(rt, "freshData"))
		case kind == "match":
			nonce, data = x.nonce, x.data
		case kind == "wrongNonce":
			nonce, data = x.nonce+int64(rapid.SampledFrom([]int{1, -1, 256}).Draw(rt, "nonceDelta")), x.data
		case kind == "wrongData":
			data = v.h1
			if bytes.Equal(x.data, v.h1) {
				data = v.h0
			}
			nonce = x.nonce
		case kind == "otherVoter":
			var src *c20Voter
			for _, o := range v.voters {
				if o.committed && o.addr != addr && o.data != nil {
					src = o
				}
			}
			if src == nil {
				rt.Skip("no other committed voter")
			}
			nonce, data = src.nonce, src.data
		}
		doReveal(v, addr, name, kind, nonce, data)
	}

	// bulk actions follow the per-voter plan drawn at detection (who takes part, for which option)
	commitPlanned := func(v *c20Vote) {
		for _, x := range v.voters {
			if v.state == c20Commit && !x.committed && x.planCommit {
				honestCommit(v, x.addr, x.name, x.planOpt)
			}
		}
	}
	revealPlanned := func(v *c20Vote) {
		for _, x := range v.voters {
			if v.state == c20Reveal && x.committed && !x.revealed && x.data != nil && x.planReveal {
				doReveal(v, x.addr, x.name, "match", x.nonce, x.data)
			}
		}
	}

	// first detection up front so that every case has a vote
	detect(rt)
	acts := map[string]func(*rapid.T){
		"detect":  detect,
		"commit":  commit,
		"commit2": commit,
		"commit3": commit,
		"reveal":  reveal,
		"reveal2": reveal,
		"reveal3": reveal,
		"commitPlanned": func(rt *rapid.T) {
			v := pickVote(rt, c20Commit)
			if v.state != c20Commit {
				rt.Skip("not in commit state")
			}
			commitPlanned(v)
		},
		"revealPlanned": func(rt *rapid.T) {
			v := pickVote(rt, c20Reveal)
			if v.state != c20Reveal {
				rt.Skip("not in reveal state")
			}
			revealPlanned(v)
		},
		"advanceBlocks": func(rt *rapid.T) {
			n := rapid.SampledFrom([]int{1, 1, 2, 5}).Draw(rt, "blocks")
			c.Logf("advanceBlocks(%d)", n)
			c.AdvanceBlocks(n, 0)
		},
		"advanceEpoch": func(rt *rapid.T) {
			c.Logf("advanceEpochs(1)")
			c.AdvanceEpoch()
		},
		"": func(rt *rapid.T) {
			if c.Halt != "" {
				rt.Skip("chain halted (C37)")
			}
			for _, v := range m.votes {
				if v.state != c20Closed {
					m.compareRecord(v, "invariant")
				}
			}
		},
	}
	rt.Repeat(acts)

	// drive every vote to closure; voters that have not acted yet follow their plan
	for i := 0; i < 20 && c.Halt == ""; i++ {
		open := false
		for _, v := range m.votes {
			if v.state != c20Closed {
				open = true
				commitPlanned(v)
				revealPlanned(v)
			}
		}
		if !open {
			break
		}
		c.Logf("finish: advanceEpoch")
		c.AdvanceEpoch()
	}
	if c.Halt != "" {
		col.Case(false, fmt.Sprint(c.Hist), "halted(left to C37)")
		return
	}
	closed, oop, dup, forged, resolved, unresolved, noneWin, mism := 0, 0, 0, 0, 0, 0, 0, 0
	nonVoters, nearHalf := 0, 0
	for _, v := range m.votes {
		col.Clause("every-vote-closes")
		if v.state != c20Closed {
			m.fail("vote %s (state %d, deadline %d) is still open 20 epochs later", short(v.id), v.state, v.deadline)
		}
		closed++
		oop += v.outOfPhase
		dup += v.duplicates
		forged += v.forged
		mism += v.mismatched
		if strings.Contains(v.resolved, "unresolved") {
			unresolved++
		} else {
			resolved++
			if strings.HasSuffix(v.resolved, ":None") {
				noneWin++
			}
		}
		first, second, none, total, nv, _ := v.outcome()
		nonVoters += nv
		for _, s := range []math.Int{first, second, none} {
			// within 10% of the half
			d := s.MulRaw(2).Sub(total).Abs()
			if !s.IsZero() && d.MulRaw(10).LTE(total) {
				nearHalf++
			}
		}
	}
	nt := closed >= 1 && (oop+dup) >= 1 && acceptedReveals >= 1
	var classes []string
	add := func(cond bool, name string) {
		if cond {
			classes = append(classes, name)
		}
	}
	add(oop > 0, "out-of-phase-message")
	add(dup > 0, "duplicate-message")
	add(forged > 0, "forged-or-copied-commit")
	add(mism > 0, "reveal-not-matching-commit")
	add(resolved > 0, "vote-resolved")
	add(unresolved > 0, "vote-unresolved")
	add(noneWin > 0, "none-of-the-providers-wins")
	add(nonVoters > 0, "listed-voter-never-revealed")
	add(nearHalf > 0, "option-within-10%-of-half")
	add(len(m.votes) >= 2, "2+-votes")
	add(acceptedReveals >= 3, "3+-accepted-reveals")
	col.AddExtra("accepted_commits", acceptedCommits)
	col.AddExtra("accepted_reveals", acceptedReveals)
	col.AddExtra("rejected_messages", rejected)
	col.AddExtra("votes_closed", closed)
	col.Case(nt, fmt.Sprint(c.Hist), classes...)
	if nt {
		var res []string
		for _, v := range m.votes {
			res = append(res, v.resolved)
		}
		sort.Strings(res)
		col.Sample(map[string]any{"history_tail": c.HistTail(25), "votes": m.describe(), "resolutions": res})
	}
}
