package cepoch

import (
	"fmt"
	"os"
	"sort"
	"strings"
	"testing"
	"time"

	"cosmossdk.io/math"
	sdk "github.com/cosmos/cosmos-sdk/types"
	pairingtypes "github.com/lavanet/lava/v5/x/pairing/types"
	"pgregory.net/rapid"

	"verifharness/internal/chain"
	"verifharness/internal/ev"
)

// C24: reputation pairing scores are bounded and order-preserving.
//
// The generator feeds QoS-excellence reports into provider reputations in two ways: real relay
// payments (RelaySession.QosExcellenceReport, cluster of the consumer's subscription) and the
// keeper entry point the relay payment uses (UpdateReputationEpochQosScore, inside a
// transaction, score computed with QualityOfServiceReport.ComputeReputation like the payment
// does), with generated weights, stakes, clusters, and block-time gaps. After every epoch
// start the stored reputations and pairing scores are read and checked.

// domain: the whole history spans at most c24MaxRatio half lives (the 18-decimal exponentiation of
// the decay factor overflows beyond ~177 half lives; with the default half life of a year that is
// out of reach, see the report), and availability is a fraction in (0, 1] as consumers compute it.
const c24MaxRatio = 150

type c24Key struct{ chain, cluster, provider string }

func (k c24Key) String() string { return k.chain + "/" + k.cluster + "/" + short(k.provider) }

type c24Model struct {
	fatalf  func(format string, args ...any)
	w       *chain.World
	col     *ev.Collector
	touched map[c24Key]bool // reputations that received a report since the last epoch start
	known   map[c24Key]bool

	epochChecks      int
	maxGroupDistinct int
	maxed, scaled    int
	longGapUpdates   int
	untouchedUpdated int
	truncating       bool
}

func (m *c24Model) fail(format string, args ...any) {
	m.fatalf("%s", ev.Violation("C24", "%s\n height=%d time=%s\n history (tail):\n  %s", fmt.Sprintf(format, args...), m.w.C.Height(),
		m.w.C.TS.Ctx.BlockTime().UTC().Format(time.RFC3339), histString(m.w.C, 40)))
}

func c24Resolve(f pairingtypes.Frac) (math.LegacyDec, bool) {
	if f.Denom.IsNil() || f.Num.IsNil() || f.Denom.IsZero() {
		return math.LegacyDec{}, false
	}
	return f.Num.Quo(f.Denom), true
}

// own statement of Reputation.Validate (types/reputation.go documents it): times positive and
// ordered, stake in the bond denom, all score numerators >= 0 and denominators > 0.
func c24Valid(r pairingtypes.Reputation, denom string) string {
	switch {
	case r.CreationTime <= 0 || r.TimeLastUpdated <= 0:
		return "non-positive timestamps"
	case r.TimeLastUpdated < r.CreationTime:
		return "last update before creation"
	case r.Stake.Denom != denom:
		return "stake denom " + r.Stake.Denom
	}
	for name, f := range map[string]pairingtypes.Frac{"score": r.Score.Score, "variance": r.Score.Variance, "epoch score": r.EpochScore.Score, "epoch variance": r.EpochScore.Variance} {
		if f.Num.IsNil() || f.Denom.IsNil() {
			return name + " is nil"
		}
		if f.Num.IsNegative() {
			return name + " numerator is negative: " + f.Num.String()
		}
		if !f.Denom.IsPositive() {
			return name + " denominator is not positive: " + f.Denom.String()
		}
	}
	return ""
}

// checkAll: clauses that hold at any time for every stored reputation / pairing score.
func (m *c24Model) checkAll(where string) []pairingtypes.ReputationGenesis {
	ts := m.w.C.TS
	all := ts.Keepers.Pairing.GetAllReputation(ts.Ctx)
	for _, e := range all {
		m.col.Clause("stored-reputation-is-valid")
		if why := c24Valid(e.Reputation, m.w.C.Denom()); why != "" || !e.Reputation.Validate() {
			m.fail("%s: stored reputation of %s/%s/%s is invalid (%s; Validate()=%v): %s", where, e.ChainId, e.Cluster, short(e.Provider), why, e.Reputation.Validate(), e.Reputation.String())
		}
		if ps, found := ts.Keepers.Pairing.GetReputationScore(ts.Ctx, e.ChainId, e.Cluster, e.Provider); found {
			m.col.Clause("pairing-score-within-[min,max]")
			if ps.IsNil() || ps.LT(pairingtypes.MinReputationPairingScore) || ps.GT(pairingtypes.MaxReputationPairingScore) {
				m.fail("%s: reputation pairing score of %s/%s/%s is %s, outside [%s, %s]", where, e.ChainId, e.Cluster, short(e.Provider), ps, pairingtypes.MinReputationPairingScore, pairingtypes.MaxReputationPairingScore)
			}
		}
	}
	return all
}

// onEpochStart runs right after an epoch start was processed.
func (m *c24Model) onEpochStart() {
	ts := m.w.C.TS
	now := ts.Ctx.BlockTime().UTC().Unix()
	all := m.checkAll("after epoch start")
	m.epochChecks++

	type upd struct {
		key     c24Key
		score   math.LegacyDec
		pairing math.LegacyDec
		stake   math.Int
	}
	groups := map[string][]upd{}
	for _, e := range all {
		k := c24Key{e.ChainId, e.Cluster, e.Provider}
		r := e.Reputation
		if m.touched[k] {
			m.col.Clause("reported-reputation-is-updated-at-epoch-start")
			if !r.EpochScore.Equal(pairingtypes.ZeroQosScore) || r.TimeLastUpdated != now {
				m.fail("reputation %s received reports during the epoch but was not folded in at the epoch start (epoch score %s, last updated %d, now %d)", k, r.EpochScore.String(), r.TimeLastUpdated, now)
			}
		}
		// "updated at this epoch start" is observed: the reputation carries this block's time
		// (the keeper currently refreshes every stored reputation at every epoch start, also
		// those without a report in the epoch)
		if r.TimeLastUpdated != now {
			continue
		}
		if !m.touched[k] {
			m.untouchedUpdated++
		}
		ps, found := ts.Keepers.Pairing.GetReputationScore(ts.Ctx, k.chain, k.cluster, k.provider)
		if !found {
			m.fail("reputation %s was updated at this epoch start but has no pairing score", k)
		}
		score, ok := c24Resolve(r.Score.Score)
		if !ok {
			m.fail("reputation %s has an unresolvable score %s", k, r.Score.String())
		}
		g := k.chain + " " + k.cluster
		groups[g] = append(groups[g], upd{k, score, ps, r.Stake.Amount})
	}
	for k := range m.touched {
		found := false
		for _, e := range all {
			if (c24Key{e.ChainId, e.Cluster, e.Provider}) == k {
				found = true
			}
		}
		if !found {
			m.fail("reputation %s received an accepted report but is not stored", k)
		}
	}
	gkeys := make([]string, 0, len(groups))
	for g := range groups {
		gkeys = append(gkeys, g)
	}
	sort.Strings(gkeys)
	scale := pairingtypes.MaxReputationPairingScore.Sub(pairingtypes.MinReputationPairingScore)
	for _, g := range gkeys {
		us := groups[g]
		sort.Slice(us, func(i, j int) bool {
			if us[i].score.Equal(us[j].score) {
				return us[i].key.provider < us[j].key.provider
			}
			return us[i].score.LT(us[j].score)
		})
		distinct := 0
		for i := range us {
			if i == 0 || !us[i].score.Equal(us[i-1].score) {
				distinct++
			}
			for j := i + 1; j < len(us); j++ {
				m.col.Clause("better-qos-score-never-gets-lower-pairing-score")
				if us[i].score.LT(us[j].score) && us[i].pairing.LT(us[j].pairing) {
					m.fail("order not preserved in %s: %s has the better QoS score %s < %s of %s, but the lower pairing score %s < %s", g,
						short(us[i].key.provider), us[i].score, us[j].score, short(us[j].key.provider), us[i].pairing, us[j].pairing)
				}
			}
		}
		if distinct > m.maxGroupDistinct {
			m.maxGroupDistinct = distinct
		}
		// documented rule (reputation.go): benchmark = score of the first provider (ascending
		// score) at which the accumulated stake reaches 10% of the group's stake; score <=
		// benchmark -> max, otherwise min + (max-min) * benchmark/score.
		total := math.ZeroInt()
		for _, u := range us {
			total = total.Add(u.stake)
		}
		threshold := math.LegacyNewDecWithPrec(1, 1).MulInt(total) // documented: 10% of the total stake
		acc := math.LegacyZeroDec()
		benchmark := us[0].score
		for _, u := range us {
			acc = acc.Add(u.stake.ToLegacyDec())
			if acc.GTE(threshold) {
				benchmark = u.score
				break
			}
		}
		for _, u := range us {
			want := pairingtypes.MaxReputationPairingScore
			if !u.score.IsZero() && u.score.GT(benchmark) {
				want = pairingtypes.MinReputationPairingScore.Add(benchmark.Quo(u.score).Mul(scale))
				m.scaled++
			} else {
				m.maxed++
			}
			m.col.Clause("pairing-score-follows-documented-benchmark-rule")
			if !u.pairing.Equal(want) {
				if os.Getenv("C24_DEBUG") != "" {
					for _, e := range all {
						ps, f := ts.Keepers.Pairing.GetReputationScore(ts.Ctx, e.ChainId, e.Cluster, e.Provider)
						fmt.Printf("DEBUG rep %s/%s/%s touched=%v pairing=%v(%v) rep=%s\n", e.ChainId, e.Cluster, short(e.Provider), m.touched[c24Key{e.ChainId, e.Cluster, e.Provider}], ps, f, e.Reputation.String())
					}
				}
				m.fail("pairing score of %s in %s is %s; with benchmark %s (10%% of stake %s) and QoS score %s the documented rule gives %s", short(u.key.provider), g, u.pairing, benchmark, total, u.score, want)
			}
		}
	}
	m.touched = map[c24Key]bool{}
}

type c24Report struct {
	lat, sync, avail math.LegacyDec
}

func c24GenReport(rt *rapid.T) c24Report {
	d := func(label string, vals []string) math.LegacyDec {
		return math.LegacyMustNewDecFromStr(rapid.SampledFrom(vals).Draw(rt, label))
	}
	lat := d("lat", []string{"0", "0.000000000000000001", "0.001", "0.05", "0.1", "0.5", "1", "3", "10", "3000", "1000000000", "1000000000000000"})
	syn := d("sync", []string{"0", "0.000000000000000001", "0.1", "1", "12.5", "600", "1000000000000"})
	avails := []string{"1", "1", "0.99", "0.9", "0.5", "0.01", "0.000001", "0.000000000000000001"}
	return c24Report{lat, syn, d("avail", avails)}
}

func TestC24(t *testing.T) {
	col := ev.For("C24")
	col.SetRule("a generated world (1-2 chains, 2-8 providers with uneven stakes, 1-2 consumers; half-life in {year, 30 days, 7 days}, stabilisation period in {0, 1 hour, week}, both possibly changed mid-history by a transaction) receives per epoch QoS-excellence reports (latency/sync/availability from tiny to huge values that pass QualityOfServiceReport.Validate) through real relay payments and through UpdateReputationEpochQosScore inside transactions (clusters c0/c1 or the subscription's cluster, weights 1..1e9, stakes), single reports, bursts for every provider of a cluster, repeated reports in one epoch; epochs advance normally or after block-time jumps of an hour, a day, 30 days or 10^4 epochs; after every epoch start all stored reputations and pairing scores are checked; non-trivial = at least one epoch start at which >=3 providers of one (chain, cluster) with pairwise distinct QoS scores were updated together; distinct = distinct action histories")
	col.Assume("availability of a report is a fraction in (0, 1] (what consumers compute; the chain itself also accepts values above 1, which yield negative scores - reported separately, not part of this statement)",
		"the history spans at most 150 half lives of block time (half life in {year, 30 days, 7 days}); beyond ~177 half lives the decay exponentiation overflows and panics - reported separately (C37 territory)",
		"report weights >= 1 (relay CU sums); reports that make the arithmetic overflow inside the transaction are rejected transactions (rolled back)",
		"a reputation 'updated at this epoch start' is one that received an accepted report during the epoch that just ended",
		"QoS score of a reputation = stored Score.Num / Score.Denom (18-decimal quotient, as the keeper resolves it)",
		"a chain halt whose stack is in the reputation code is a C24 violation (BeginBlock must not panic); other halts end the case (C37)")
	rapid.Check(t, func(rt *rapid.T) { propC24(rt, t, col) })
}

func c24SetParams(w *chain.World, halfLife uint64, stab int64, inTx bool) error {
	ts := w.C.TS
	set := func() error {
		p := ts.Keepers.Pairing.GetParams(ts.Ctx)
		p.ReputationHalfLifeFactor = halfLife
		p.ReputationVarianceStabilizationPeriod = stab
		ts.Keepers.Pairing.SetParams(ts.Ctx, p)
		return nil
	}
	if !inTx {
		return set()
	}
	return w.C.Tx(fmt.Sprintf("pairingParams(halfLife=%d,stabilization=%d)", halfLife, stab), nil, set)
}

func propC24(rt *rapid.T, t *testing.T, col *ev.Collector) {
	w := chain.NewWorld(rt, t, chain.Cfg{Specs: [2]int{1, 2}, Plans: [2]int{1, 2}, Validators: [2]int{1, 1}, Providers: [2]int{2, 8}, Consumers: [2]int{1, 2}, Delegators: [2]int{0, 1}})
	c := w.C
	ts := c.TS
	if c.Halt != "" {
		rt.Skip("halted during setup")
	}
	halfLives := []uint64{12 * 30 * 24 * 3600, 30 * 24 * 3600, 7 * 24 * 3600}
	stabs := []int64{0, 3600, 7 * 24 * 3600}
	hl := rapid.SampledFrom(halfLives).Draw(rt, "halfLife")
	hl2 := rapid.SampledFrom(halfLives).Draw(rt, "halfLifeLater")
	minHL := hl
	if hl2 < minHL {
		minHL = hl2
	}
	if err := c24SetParams(w, hl, rapid.SampledFrom(stabs).Draw(rt, "stabilization"), false); err != nil {
		t.Fatalf("%s", ev.HarnessError("set params: %v", err))
	}
	m := &c24Model{fatalf: rt.Fatalf, w: w, col: col, touched: map[c24Key]bool{}, known: map[c24Key]bool{}}
	c.BlockHook = func() {
		if ts.Keepers.Epochstorage.GetEpochStart(ts.Ctx) == c.Height() {
			m.onEpochStart()
		}
	}
	start := ts.Ctx.BlockTime()
	reports, relayReports, rejectedReports, bursts, jumps := 0, 0, 0, 0, 0
	extreme := 0

	// budget of block time: no reputation may get older than c24MaxRatio half lives, so the whole
	// history stays below that.
	budgetOK := func(d time.Duration) bool {
		elapsed := ts.Ctx.BlockTime().Sub(start) + d
		if uint64(elapsed/time.Second) > c24MaxRatio*minHL {
			return false
		}
		return true
	}

	syncFactor := func() math.LegacyDec { return ts.Keepers.Pairing.ReputationLatencyOverSyncFactor(ts.Ctx) }
	scoreOf := func(r c24Report) (math.LegacyDec, bool) {
		q := pairingtypes.QualityOfServiceReport{Latency: r.lat, Sync: r.sync, Availability: r.avail}
		s, err := q.ComputeReputation(pairingtypes.WithSyncFactor(syncFactor()))
		if err != nil {
			return s, false
		}
		// documented formula: latency + sync*syncFactor + (1/availability - 1) * failure cost (3 s)
		col.Clause("report-score-follows-documented-formula")
		want := r.lat.Add(r.sync.Mul(syncFactor())).Add(math.LegacyOneDec().Quo(r.avail).Sub(math.LegacyOneDec()).MulInt64(3))
		if !s.Equal(want) {
			m.fail("ComputeReputation(lat=%s sync=%s avail=%s, syncFactor=%s) = %s, documented formula gives %s", r.lat, r.sync, r.avail, syncFactor(), s, want)
		}
		return s, true
	}
	clusters := []string{"c0", "c0", "c1"}
	report := func(rt *rapid.T, p *chain.Prov, chainID, cluster string, label string) {
		r := c24GenReport(rt)
		score, ok := scoreOf(r)
		if !ok {
			return
		}
		if score.GT(math.LegacyNewDec(1_000_000)) || (score.IsPositive() && score.LT(math.LegacyNewDecWithPrec(1, 6))) {
			extreme++
		}
		weight := int64(rapid.SampledFrom([]int{1, 1, 10, 100, 1000, 1_000_000, 1_000_000_000}).Draw(rt, label+"_weight"))
		entry, found := ts.Keepers.Epochstorage.GetStakeEntryCurrent(ts.Ctx, chainID, p.Addr())
		stake := sdk.NewCoin(c.Denom(), sdk.NewInt(int64(rapid.SampledFrom([]int{1, 1000, 5000, 1_000_000}).Draw(rt, label+"_stake"))))
		if found && rapid.Bool().Draw(rt, label+"_realStake") {
			stake = sdk.NewCoin(c.Denom(), entry.Stake.Amount.Add(entry.DelegateTotal.Amount))
		}
		err := c.Tx(fmt.Sprintf("report(%s %s/%s lat=%s sync=%s avail=%s score=%s weight=%d stake=%s)", p.Name, chainID, cluster, r.lat, r.sync, r.avail, score, weight, stake.Amount), nil, func() error {
			ts.Keepers.Pairing.UpdateReputationEpochQosScore(ts.Ctx, chainID, cluster, p.Addr(), score, weight, stake)
			return nil
		})
		if err != nil {
			rejectedReports++
			return
		}
		reports++
		k := c24Key{chainID, cluster, p.Addr()}
		m.touched[k], m.known[k] = true, true
	}

	acts := map[string]func(*rapid.T){
		"report": func(rt *rapid.T) {
			p := w.Providers[rapid.IntRange(0, len(w.Providers)-1).Draw(rt, "provider")]
			chainID := w.Specs[rapid.IntRange(0, len(w.Specs)-1).Draw(rt, "chain")].Index
			report(rt, p, chainID, rapid.SampledFrom(clusters).Draw(rt, "cluster"), "r")
		},
		"burst": func(rt *rapid.T) {
			// every provider of one (chain, cluster) reports in the same epoch
			chainID := w.Specs[rapid.IntRange(0, len(w.Specs)-1).Draw(rt, "chain")].Index
			cluster := rapid.SampledFrom(clusters).Draw(rt, "cluster")
			bursts++
			for i, p := range w.Providers {
				if rapid.IntRange(0, 5).Draw(rt, fmt.Sprintf("skip%d", i)) == 0 {
					continue
				}
				report(rt, p, chainID, cluster, fmt.Sprintf("b%d", i))
			}
		},
		"relay": func(rt *rapid.T) {
			rs, ok := w.GenRelay(rt, chain.RelayOpts{CuChoices: []uint64{1, 10, 100}})
			if !ok {
				rt.Skip("no live consumer")
			}
			r := c24GenReport(rt)
			rs.QosExc = &pairingtypes.QualityOfServiceReport{Latency: r.lat, Sync: r.sync, Availability: r.avail}
			sub, found := ts.Keepers.Subscription.GetSubscription(ts.Ctx, rs.Cons.Addr())
			if !found {
				rt.Skip("no subscription")
			}
			if _, err := w.SendRelays(rs.Prov, []chain.RelaySpec{rs}); err != nil {
				if strings.Contains(err.Error(), "VERIF-HARNESS-ERROR") {
					t.Fatalf("%s", err)
				}
				rejectedReports++
				return
			}
			relayReports++
			k := c24Key{rs.Chain, sub.Cluster, rs.Prov.Addr()}
			m.touched[k], m.known[k] = true, true
		},
		"epoch": func(rt *rapid.T) {
			n := rapid.SampledFrom([]int{1, 1, 1, 2, 3}).Draw(rt, "epochs")
			c.Logf("advanceEpochs(%d)", n)
			c.AdvanceEpochs(n)
		},
		"blocks": func(rt *rapid.T) {
			n := rapid.IntRange(1, 5).Draw(rt, "blocks")
			c.Logf("advanceBlocks(%d)", n)
			c.AdvanceBlocks(n, 0)
		},
		"jump": func(rt *rapid.T) {
			epochSecs := int64(ts.Keepers.Epochstorage.EpochBlocksRaw(ts.Ctx)) * 300
			secs := rapid.SampledFrom([]int64{3600, 24 * 3600, 30 * 24 * 3600, 100 * epochSecs, 10_000 * epochSecs}).Draw(rt, "jumpSeconds")
			d := time.Duration(secs) * time.Second
			if !budgetOK(d) {
				rt.Skip("block-time budget")
			}
			jumps++
			if secs >= 30*24*3600 {
				m.longGapUpdates++
			}
			c.Logf("jump(%ds)", secs)
			if c.AdvanceBlock(d) {
				c.AdvanceEpoch()
			}
		},
		"params": func(rt *rapid.T) {
			_ = c24SetParams(w, hl2, rapid.SampledFrom(stabs).Draw(rt, "stabilization"), true)
		},
		"": func(rt *rapid.T) {
			if c.Halt != "" {
				if strings.Contains(c.Halt, "reputation") || strings.Contains(c.Halt, "NaturalBaseExponentFraction") || strings.Contains(c.Halt, "qos_score") {
					col.Clause("begin-block-does-not-panic-in-reputation-update")
					m.fail("BeginBlock panicked in the reputation update: %s", c.Halt)
				}
				rt.Skip("chain halted outside the reputation code (C37)")
			}
			m.checkAll("after a step")
		},
	}
	rt.Repeat(acts)
	if c.Halt == "" {
		c.Logf("final advanceEpoch")
		c.AdvanceEpoch()
	}
	if c.Halt != "" {
		if strings.Contains(c.Halt, "reputation") || strings.Contains(c.Halt, "NaturalBaseExponentFraction") || strings.Contains(c.Halt, "qos_score") {
			m.fail("BeginBlock panicked in the reputation update: %s", c.Halt)
		}
		col.Case(false, fmt.Sprint(c.Hist), "halted(left to C37)")
		return
	}
	clustersSeen := map[string]bool{}
	for k := range m.known {
		clustersSeen[k.chain+" "+k.cluster] = true
	}
	nt := m.maxGroupDistinct >= 3
	var classes []string
	add := func(cond bool, name string) {
		if cond {
			classes = append(classes, name)
		}
	}
	add(m.maxGroupDistinct >= 3, "3+-distinct-scores-updated-together")
	add(m.maxGroupDistinct >= 5, "5+-distinct-scores-updated-together")
	add(len(clustersSeen) >= 2, "2+-chain-clusters")
	add(relayReports > 0, "report-through-relay-payment")
	add(reports > 0, "report-through-keeper-entry-point")
	add(rejectedReports > 0, "rejected-report(tx failed)")
	add(extreme > 0, "extreme-score(>1e6 or <1e-6)")
	add(m.longGapUpdates > 0, "gap>=30-days")
	add(jumps > 0, "time-jump")
	add(m.scaled > 0, "scaled-pairing-score(below max)")
	add(bursts > 0, "burst")
	add(m.untouchedUpdated > 0, "reputation-without-report-refreshed-at-epoch-start")
	col.AddExtra("epoch_starts_checked", m.epochChecks)
	col.AddExtra("reports_accepted", reports+relayReports)
	col.AddExtra("pairing_scores_at_max", m.maxed)
	col.AddExtra("pairing_scores_scaled", m.scaled)
	col.Case(nt, fmt.Sprint(c.Hist), classes...)
	if nt {
		col.Sample(map[string]any{"history_tail": c.HistTail(20), "max_distinct_scores_in_group": m.maxGroupDistinct, "reports": reports, "relay_reports": relayReports, "halfLife": hl, "halfLifeLater": hl2})
	}
}
