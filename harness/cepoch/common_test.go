package cepoch

import (
	"fmt"
	"os"
	"strings"
	"testing"

	"cosmossdk.io/math"
	sdk "github.com/cosmos/cosmos-sdk/types"
	"github.com/lavanet/lava/v5/testutil/common"
	"github.com/lavanet/lava/v5/utils/sigs"
	epochstoragetypes "github.com/lavanet/lava/v5/x/epochstorage/types"
	planstypes "github.com/lavanet/lava/v5/x/plans/types"

	"verifharness/internal/chain"
	"verifharness/internal/ev"
)

func histString(c *chain.Chain, n int) string {
	return strings.Join(c.HistTail(n), "\n  ")
}

func thorough() bool { return os.Getenv("VERIF_TIER") == "thorough" }

// miniWorld builds a small deterministic world without rapid draws (for witness tests and for
// properties that need full control of the setup): one plain spec SP0, one validator, one plan
// with the given max-providers-to-pair, providers with the given stakes (vault == provider), one
// consumer with a 3-month subscription. hook, when non-nil, is installed before the first block.
func miniWorld(t *testing.T, seed int64, stakes []int64, maxProviders uint64, hook func(c *chain.Chain) func()) (*chain.World, *chain.Cons) {
	c := chain.New(t, seed)
	if hook != nil {
		c.BlockHook = hook(c)
	}
	ts := c.TS
	w := &chain.World{C: c, Keys: map[string]sigs.Account{}, NextSess: 1}
	w.Cfg.MaxCU = 1_000_000
	c.AdvanceBlock(0)
	sp := chain.MakeSpec("SP0", false, 1000, c.Denom())
	ts.AddSpec(sp.Index, sp)
	w.Specs = append(w.Specs, sp)
	val, _ := ts.AddAccount(common.VALIDATOR, 0, 10_000_000_000)
	ts.TxCreateValidator(val, math.NewInt(1_000_000_000))
	w.Validators = append(w.Validators, val)
	plan := planstypes.Plan{
		Index: "plan0", Description: "generated", Type: "rpc", Price: sdk.NewCoin(c.Denom(), sdk.NewInt(1000)),
		PlanPolicy:    planstypes.Policy{TotalCuLimit: 1_000_000, EpochCuLimit: 100_000, MaxProvidersToPair: maxProviders, GeolocationProfile: 1},
		ProjectsLimit: 5,
	}
	if err := ts.TxProposalAddPlans(plan); err != nil {
		t.Fatalf("%s", ev.HarnessError("add plan: %v", err))
	}
	w.Plans = append(w.Plans, plan)
	c.AdvanceEpoch()
	for i, stake := range stakes {
		acc := w.NewAccount(10_000_000_000)
		self := acc
		acc.Vault = &self
		w.Keys[acc.Addr.String()] = acc
		p := &chain.Prov{Name: fmt.Sprintf("prov%d", i), Acc: acc}
		w.Providers = append(w.Providers, p)
		eps := []epochstoragetypes.Endpoint{{IPPORT: "10.0.0.1:443", Geolocation: 1, ApiInterfaces: []string{chain.IfJSON}}}
		if err := w.StakeProvider(p, sp.Index, stake, 1, eps, 50, val); err != nil {
			t.Fatalf("%s", ev.HarnessError("stake failed: %v", err))
		}
	}
	consAcc := w.NewAccount(10_000_000_000)
	cons := &chain.Cons{Name: "cons0", Acc: consAcc, Devs: []sigs.Account{consAcc}}
	w.Consumers = append(w.Consumers, cons)
	if _, err := ts.TxSubscriptionBuy(cons.Addr(), cons.Addr(), plan.Index, 3, false, false); err != nil {
		t.Fatalf("%s", ev.HarnessError("subscription: %v", err))
	}
	c.AdvanceEpoch()
	c.AdvanceEpoch()
	if c.Halt != "" {
		t.Fatalf("%s", ev.HarnessError("mini world halted during setup: %s", c.Halt))
	}
	c.Hist = nil
	return w, cons
}

func short(s string) string {
	if len(s) > 14 {
		return "…" + s[len(s)-12:]
	}
	return s
}
