package cmoney

import (
	"fmt"
	"sort"
	"strings"
	"math"
	"math/big"
	"testing"
	"time"

	sdk "github.com/cosmos/cosmos-sdk/types"
	authtypes "github.com/cosmos/cosmos-sdk/x/auth/types"
	govtypes "github.com/cosmos/cosmos-sdk/x/gov/types"
	dualstakingtypes "github.com/lavanet/lava/v5/x/dualstaking/types"
	planstypes "github.com/lavanet/lava/v5/x/plans/types"
	rewardstypes "github.com/lavanet/lava/v5/x/rewards/types"
	subscriptiontypes "github.com/lavanet/lava/v5/x/subscription/types"
	"pgregory.net/rapid"

	"verifharness/internal/chain"
	"verifharness/internal/ev"
)

// C10: escrowed obligations are always fully backed.
//
// After every transaction and every block:
//   - dualstaking module balance >= sum of all recorded (claimable) delegator rewards, per denom;
//   - IPRPC pool balance >= sum of all spec funds of all stored IPRPC months, per denom;
//   - subscription module balance >= sum over consumers of the newest subscription version's
//     Credit + its FutureSubscription.Credit + sum of the credits carried by pending CU-tracker
//     (monthly payout) timers;
//   - no claim fails for lack of funds and no payout logs a transfer refused for lack of funds.

const (
	secondDenom         = "ibctoken" // a second denomination used for IPRPC funds
	findingC10Unbacked = "c10-reward-recorded-although-transfer-failed"
)

type c10State struct {
	w *chain.World
	c *ev.Collector

	advBought      int // accepted advance purchases
	advReplaced    int // accepted advance purchase while one was pending
	advSurvived    int // month boundaries crossed while an advance purchase was pending
	fundLong       int // accepted IPRPC funds with duration >= 2
	fundSurvived   int // month boundaries crossed with >= 2 stored IPRPC months
	upgrades       int
	claimsOK       int
	claimedNonZero int
	payouts        int // CU-tracker timers that fired
	months         int
	relaysOK       int
	maxOblig       [3]bool // obligations of (dualstaking, iprpc, subscription) were non-zero at some check

	// class of the known finding: payouts whose 64-bit CU total wraps
	payoutSums map[string]*big.Int // pending payout (sub|block) -> sum of its tracked CU at the last check
	dead       bool                // such a payout fired while the finding is excluded: the rest of the case is not judged
	witness    bool
}

// payoutCuSums reads, for every pending payout, the big-int sum of the tracked CU it will pay.
func (s *c10State) payoutCuSums() map[string]*big.Int {
	ks := s.w.C.TS.Keepers
	ctx := s.w.C.TS.Ctx
	out := map[string]*big.Int{}
	pend, err := pendingPayouts(s.w)
	if err != nil {
		return out
	}
	for _, p := range pend {
		sum := new(big.Int)
		for _, idx := range ks.Subscription.GetAllSubTrackedCuIndices(ctx, p.Sub) {
			parts := strings.Split(idx, " ")
			if len(parts) != 3 {
				continue
			}
			if cu, found, _ := ks.Subscription.GetTrackedCu(ctx, p.Sub, parts[1], parts[2], p.Block); found {
				sum.Add(sum, u64(cu))
			}
		}
		out[fmt.Sprintf("%s|%d|%d", p.Sub, p.Block, p.Expiry)] = sum
	}
	return out
}

// wrappedPayoutFired reports whether a payout that disappeared since the last check had a CU
// total of 2^64 or more (the 64-bit sum in GetSubTrackedCuInfo wrapped).
func (s *c10State) wrappedPayoutFired() bool {
	now := s.payoutCuSums()
	fired := false
	for k, sum := range s.payoutSums {
		if _, still := now[k]; !still && sum.BitLen() > 64 {
			fired = true
		}
	}
	s.payoutSums = now
	return fired
}

func (s *c10State) violation(rt fataler, format string, args ...any) {
	rt.Fatalf("%s", ev.Violation("C10", "%s\nhistory (tail):\n  %s", fmt.Sprintf(format, args...), histString(s.w, 40)))
}

// obligations reads the recorded obligations (raw state) of the three escrows.
func (s *c10State) check(rt fataler, where string) {
	if s.dead {
		return
	}
	if s.wrappedPayoutFired() {
		s.c.Class("payout-with-wrapped-cu-total")
		if !s.witness && ev.Excluded(findingC10Unbacked) {
			s.c.Exclude(findingC10Unbacked)
			s.dead = true
			return
		}
	}
	w := s.w
	ks := w.C.TS.Keepers
	ctx := w.C.TS.Ctx

	// dualstaking: claimable delegator rewards
	owed := sdk.NewCoins()
	for _, r := range ks.Dualstaking.GetAllDelegatorReward(ctx) {
		owed = owed.Add(r.Amount...)
	}
	s.c.Clause("dualstaking-balance>=recorded-rewards")
	if msg := notCovered(modBal(w, dualstakingtypes.ModuleName), owed); msg != "" {
		s.violation(rt, "%s: dualstaking module account does not cover the recorded delegator rewards: %s", where, msg)
	}
	if !owed.IsZero() {
		s.maxOblig[0] = true
	}

	// IPRPC pool: all stored months
	funds := sdk.NewCoins()
	for _, m := range ks.Rewards.GetAllIprpcReward(ctx) {
		for _, sf := range m.SpecFunds {
			funds = funds.Add(sf.Fund...)
		}
	}
	s.c.Clause("iprpc-pool>=promised-funds")
	if msg := notCovered(modBal(w, string(rewardstypes.IprpcPoolName)), funds); msg != "" {
		s.violation(rt, "%s: IPRPC pool does not cover the funds promised to current and future months: %s", where, msg)
	}
	if !funds.IsZero() {
		s.maxOblig[1] = true
	}

	// subscription module: live credit + advance purchases + pending payouts
	denom := w.C.Denom()
	credit := sdk.ZeroInt()
	detail := []string{}
	idx := ks.Subscription.GetAllSubscriptionsIndices(ctx)
	sort.Strings(idx)
	for _, consumer := range idx {
		sub, found := latestSub(w, consumer)
		if !found {
			continue
		}
		if sub.Credit.Denom != "" {
			credit = credit.Add(sub.Credit.Amount)
			detail = append(detail, fmt.Sprintf("sub %s credit %s", short(consumer), sub.Credit.Amount))
		}
		if sub.FutureSubscription != nil {
			credit = credit.Add(sub.FutureSubscription.Credit.Amount)
			detail = append(detail, fmt.Sprintf("sub %s future credit %s", short(consumer), sub.FutureSubscription.Credit.Amount))
		}
	}
	pend, err := pendingPayouts(w)
	if err != nil {
		rt.Fatalf("%s", ev.HarnessError("%v", err))
	}
	for _, p := range pend {
		credit = credit.Add(p.Credit.Amount)
		detail = append(detail, fmt.Sprintf("payout timer %s@%d credit %s", short(p.Sub), p.Expiry, p.Credit.Amount))
	}
	s.c.Clause("subscription-balance>=credit+future+pending-payouts")
	have := modBal(w, subscriptiontypes.ModuleName).AmountOf(denom)
	if have.LT(credit) {
		s.violation(rt, "%s: subscription module account holds %s%s but owes %s%s (%s)", where, have, denom, credit, denom, strings.Join(detail, "; "))
	}
	if credit.IsPositive() {
		s.maxOblig[2] = true
	}
}

func notCovered(have, owed sdk.Coins) string {
	var bad []string
	for _, c := range owed {
		if have.AmountOf(c.Denom).LT(c.Amount) {
			bad = append(bad, fmt.Sprintf("holds %s%s, owes %s%s", have.AmountOf(c.Denom), c.Denom, c.Amount, c.Denom))
		}
	}
	return strings.Join(bad, "; ")
}

func short(addr string) string {
	if len(addr) > 8 {
		return addr[len(addr)-6:]
	}
	return addr
}

// ---- specialised actions -------------------------------------------------------------------------

func (s *c10State) hasFuture(consumer string) bool {
	sub, found := latestSub(s.w, consumer)
	return found && sub.FutureSubscription != nil
}

func (s *c10State) buy(rt *rapid.T, c *chain.Cons, plan string, months int, auto, adv bool) error {
	w := s.w
	msg := &subscriptiontypes.MsgBuy{Creator: c.Addr(), Consumer: c.Addr(), Index: plan, Duration: uint64(months), AutoRenewal: auto, AdvancePurchase: adv}
	return w.C.Tx(fmt.Sprintf("subBuy(%s,%s,%dm,auto=%v,adv=%v)", c.Name, plan, months, auto, adv), msg.ValidateBasic, func() error {
		_, err := w.C.TS.Servers.SubscriptionServer.Buy(w.C.TS.GoCtx, msg)
		return err
	})
}

// actAdvance buys in advance; with a pending advance purchase it prefers the most expensive
// offer so that the pending one is replaced (only a higher total price replaces).
func (s *c10State) actAdvance(rt *rapid.T) {
	w := s.w
	cons := w.LiveConsumers()
	if len(cons) == 0 {
		rt.Skip("no live consumer")
	}
	c := pick(rt, "consumer", cons)
	plan := pick(rt, "plan", w.Plans)
	months := rapid.SampledFrom([]int{1, 2, 3, 6, 12}).Draw(rt, "months")
	had := s.hasFuture(c.Addr())
	if s.buy(rt, c, plan.Index, months, false, true) == nil {
		s.advBought++
		if had {
			s.advReplaced++
		}
	}
}

// actUpgrade buys another plan (an upgrade when its price is not lower).
func (s *c10State) actUpgrade(rt *rapid.T) {
	w := s.w
	cons := w.LiveConsumers()
	if len(cons) == 0 || len(w.Plans) < 2 {
		rt.Skip("nothing to upgrade")
	}
	c := pick(rt, "consumer", cons)
	cur, _ := latestSub(w, c.Addr())
	var other []string
	for _, p := range w.Plans {
		if p.Index != cur.PlanIndex {
			other = append(other, p.Index)
		}
	}
	plan := pick(rt, "plan", other)
	months := rapid.SampledFrom([]int{1, 2, 3}).Draw(rt, "months")
	if s.buy(rt, c, plan, months, rapid.IntRange(0, 3).Draw(rt, "auto") == 0, false) == nil {
		s.upgrades++
	}
}

func (s *c10State) actIprpcFund(rt *rapid.T) {
	w := s.w
	ts := w.C.TS
	c := pick(rt, "funder", w.Consumers)
	spec := pick(rt, "spec", w.Specs)
	duration := uint64(rapid.SampledFrom([]int{1, 2, 2, 3, 4, 12}).Draw(rt, "duration"))
	amount := int64(rapid.SampledFrom([]int{1, 1000, 1001, 5000, 99_999, 1_000_000}).Draw(rt, "fund"))
	coins := sdk.NewCoins(sdk.NewCoin(w.C.Denom(), sdk.NewInt(amount)))
	if rapid.IntRange(0, 2).Draw(rt, "withSecondDenom") == 0 {
		coins = coins.Add(sdk.NewCoin(secondDenom, sdk.NewInt(int64(rapid.SampledFrom([]int{1, 7, 500, 12345}).Draw(rt, "fund2")))))
	}
	msg := &rewardstypes.MsgFundIprpc{Creator: c.Addr(), Spec: spec.Index, Duration: duration, Amounts: coins}
	err := w.C.Tx(fmt.Sprintf("iprpcFund(%s,%s,%dm,%s)", c.Name, spec.Index, duration, coins), msg.ValidateBasic, func() error {
		_, err := ts.Servers.RewardsServer.FundIprpc(ts.GoCtx, msg)
		return err
	})
	if err == nil && duration >= 2 {
		s.fundLong++
	}
}

func (s *c10State) actIprpcSetData(rt *rapid.T) {
	w := s.w
	ts := w.C.TS
	var subs []string
	for i, c := range w.Consumers {
		if rapid.IntRange(0, 2).Draw(rt, fmt.Sprintf("iprpcSub%d", i)) > 0 {
			subs = append(subs, c.Addr())
		}
	}
	cost := int64(rapid.SampledFrom([]int{0, 0, 100, 1000}).Draw(rt, "minCost"))
	authority := authtypes.NewModuleAddress(govtypes.ModuleName).String()
	msg := &rewardstypes.MsgSetIprpcData{Authority: authority, MinIprpcCost: sdk.NewCoin(w.C.Denom(), sdk.NewInt(cost)), IprpcSubscriptions: subs}
	_ = w.C.Tx(fmt.Sprintf("iprpcSetData(cost=%d,subs=%d)", cost, len(subs)), msg.ValidateBasic, func() error {
		_, err := ts.Servers.RewardsServer.SetIprpcData(ts.GoCtx, msg)
		return err
	})
}

// actClaim claims one recorded reward (or all rewards of a delegator). A claim must succeed and
// pay exactly what was recorded.
func (s *c10State) actClaim(rt *rapid.T) {
	if s.dead {
		rt.Skip("case no longer judged (known finding)")
	}
	w := s.w
	ks := w.C.TS.Keepers
	recs := ks.Dualstaking.GetAllDelegatorReward(w.C.TS.Ctx)
	if len(recs) == 0 {
		rt.Skip("no recorded rewards")
	}
	sort.Slice(recs, func(i, j int) bool {
		if recs[i].Delegator != recs[j].Delegator {
			return recs[i].Delegator < recs[j].Delegator
		}
		return recs[i].Provider < recs[j].Provider
	})
	r := pick(rt, "record", recs)
	all := rapid.Bool().Draw(rt, "allProviders")
	prov := r.Provider
	expect := sdk.NewCoins(r.Amount...)
	if all {
		prov = ""
		expect = sdk.NewCoins()
		for _, o := range recs {
			if o.Delegator == r.Delegator {
				expect = expect.Add(o.Amount...)
			}
		}
	}
	addr, err := sdk.AccAddressFromBech32(r.Delegator)
	if err != nil {
		rt.Fatalf("%s", ev.HarnessError("bad delegator address %q in reward record", r.Delegator))
	}
	before := sdk.NewCoins(ks.BankKeeper.GetAllBalances(w.C.TS.Ctx, addr)...)
	msg := &dualstakingtypes.MsgClaimRewards{Creator: r.Delegator, Provider: prov}
	err = w.C.Tx(fmt.Sprintf("claim(%s,%s expect %s)", short(r.Delegator), short(prov), expect), msg.ValidateBasic, func() error {
		_, err := w.C.TS.Servers.DualstakingServer.ClaimRewards(w.C.TS.GoCtx, msg)
		return err
	})
	s.c.Clause("claim-succeeds-and-pays-recorded-amount")
	if err != nil {
		if isLackOfFunds(err.Error()) || strings.Contains(err.Error(), "failed to send reward") {
			s.violation(rt, "claim of recorded rewards %s by %s failed for lack of funds: %v", expect, r.Delegator, err)
		}
		s.violation(rt, "claim of recorded rewards %s by %s failed: %v", expect, r.Delegator, err)
	}
	after := sdk.NewCoins(ks.BankKeeper.GetAllBalances(w.C.TS.Ctx, addr)...)
	if !after.IsEqual(before.Add(expect...)) {
		s.violation(rt, "claim by %s paid %s -> %s, recorded rewards were %s", r.Delegator, before, after, expect)
	}
	s.claimsOK++
	if !expect.IsZero() {
		s.claimedNonZero++
	}
}

// actAdvanceToPayout advances to the block of the next pending monthly payout.
func (s *c10State) actAdvanceToPayout(rt *rapid.T) {
	w := s.w
	pend, err := pendingPayouts(w)
	if err != nil {
		rt.Fatalf("%s", ev.HarnessError("%v", err))
	}
	if len(pend) == 0 {
		rt.Skip("no pending payout")
	}
	target := pend[0].Expiry + 1
	w.C.Logf("advanceToPayout(height %d)", target)
	advanceToHeight(w, target, 400)
}

func (s *c10State) actAdvanceMonth(rt *rapid.T) {
	w := s.w
	adv, months := 0, 0
	for _, c := range w.Consumers {
		if s.hasFuture(c.Addr()) {
			adv++
		}
	}
	months = len(w.C.TS.Keepers.Rewards.GetAllIprpcReward(w.C.TS.Ctx))
	days := rapid.SampledFrom([]int{28, 30, 31, 32}).Draw(rt, "days")
	w.C.Logf("advanceMonth(%dd)", days)
	for i := 0; i < days; i++ {
		if !w.C.AdvanceBlock(24 * time.Hour) {
			return
		}
	}
	w.C.AdvanceEpoch()
	s.months++
	if adv > 0 {
		s.advSurvived++
	}
	if months >= 2 {
		s.fundSurvived++
	}
}

func (s *c10State) iprpcPreamble(rt *rapid.T, wrap func(func(*rapid.T)) func(*rapid.T)) {
	w := s.w
	ts := w.C.TS
	s.c.Class("iprpc-preamble")
	eligible := w.Consumers[0]
	funder := w.Consumers[len(w.Consumers)-1]
	cost := int64(rapid.SampledFrom([]int{0, 100}).Draw(rt, "preMinCost"))
	authority := authtypes.NewModuleAddress(govtypes.ModuleName).String()
	sd := &rewardstypes.MsgSetIprpcData{Authority: authority, MinIprpcCost: sdk.NewCoin(w.C.Denom(), sdk.NewInt(cost)), IprpcSubscriptions: []string{eligible.Addr()}}
	wrap(func(*rapid.T) {
		_ = w.C.Tx(fmt.Sprintf("iprpcSetData*(cost=%d,subs=[%s])", cost, eligible.Name), sd.ValidateBasic, func() error {
			_, err := ts.Servers.RewardsServer.SetIprpcData(ts.GoCtx, sd)
			return err
		})
	})(rt)
	for _, spec := range w.Specs {
		duration := uint64(rapid.IntRange(3, 5).Draw(rt, "preDuration"))
		amount := int64(rapid.SampledFrom([]int{5000, 99_999, 1_000_000}).Draw(rt, "preFund"))
		coins := sdk.NewCoins(sdk.NewCoin(w.C.Denom(), sdk.NewInt(amount)))
		msg := &rewardstypes.MsgFundIprpc{Creator: funder.Addr(), Spec: spec.Index, Duration: duration, Amounts: coins}
		spec := spec
		wrap(func(*rapid.T) {
			if err := w.C.Tx(fmt.Sprintf("iprpcFund*(%s,%s,%dm,%s)", funder.Name, spec.Index, duration, coins), msg.ValidateBasic, func() error {
				_, err := ts.Servers.RewardsServer.FundIprpc(ts.GoCtx, msg)
				return err
			}); err == nil {
				s.fundLong++
			}
		})(rt)
	}
	s.check(rt, "after the IPRPC preamble funds")
	served := w.Specs[rapid.IntRange(0, len(w.Specs)-1).Draw(rt, "preServedSpec")].Index
	for m := 0; m < 2 && w.C.Halt == ""; m++ {
		n := rapid.IntRange(1, 3).Draw(rt, "preRelays")
		for i := 0; i < n; i++ {
			dev := eligible.Devs[0]
			paired := w.PairedProviders(served, dev.Addr.String())
			if len(paired) == 0 {
				break
			}
			prov := paired[rapid.IntRange(0, len(paired)-1).Draw(rt, "preProvider")]
			r := chain.RelaySpec{Cons: eligible, Signer: dev, Prov: prov, Chain: served, Epoch: int64(w.C.EpochStart()), Session: w.NextSess,
				CuSum: uint64(rapid.SampledFrom([]int{10, 100, 1000}).Draw(rt, "preCu"))}
			w.NextSess++
			wrap(func(*rapid.T) { _, _ = w.SendRelays(prov, []chain.RelaySpec{r}) })(rt)
			s.check(rt, "after a preamble relay payment")
		}
		wrap(s.actAdvanceMonth)(rt)
		w.C.AdvanceEpochs(int(ts.EpochsToSave()) + 2)
	}
}

func TestC10(t *testing.T) {
	c := ev.For("C10")
	c.SetRule("rapid state machine on a generated world (2-3 plans of different price, 2-3 consumers, contributors, delegators): full transaction alphabet plus emphasised subscription upgrades, advance purchases (replaced while pending), auto-renewal, IPRPC data/funds of 1-12 months in one or two denoms, relay payments, reward claims of recorded rewards, month jumps and advances to the block of the next monthly payout; oracle after every transaction and block: each escrow account covers its recorded obligations, claims succeed and pay the recorded amount, no transfer refused for lack of funds in the error log; non-trivial = an advance purchase was pending, or >=2 IPRPC months were stored, when a month boundary was crossed; distinct = distinct histories")
	c.Assume("transactions run atomically (cache context + bank snapshot); error logs of failed (rolled back) transactions are ignored",
		"obligations are read from raw state: dualstaking reward records, stored IPRPC months, newest version of each subscription (Credit and FutureSubscription.Credit), CU-tracker timer data",
		"lack of funds is recognised by the bank's refusal texts (mock bank: 'not enough coins'; sdk: 'insufficient funds', 'negative coin amount')",
		"accounts receive the second IPRPC denomination only during world setup")
	rapid.Check(t, func(rt *rapid.T) {
		errLog.Reset()
		w := chain.NewWorld(rt, t, chain.Cfg{RichSpec: false, Contrib: true, Plans: [2]int{2, 3}, Consumers: [2]int{2, 3}, Delegators: [2]int{1, 3}, Specs: [2]int{1, 3}})
		for _, cons := range w.Consumers {
			_ = w.C.TS.Keepers.BankKeeper.AddToBalance(cons.Acc.Addr, sdk.NewCoins(sdk.NewCoin(secondDenom, sdk.NewInt(1_000_000))))
		}
		s := &c10State{w: w, c: c}
		// class of the known finding c10-reward-recorded-although-transfer-failed: a plan with CU
		// limits of 2^64-1 and relay payments of 2^63+12345 CU (payout shares then exceed the credit)
		giant := !ev.Excluded(findingC10Unbacked)
		if giant {
			hp := planstypes.Plan{Index: "huge", Description: "unlimited", Type: "rpc", Price: sdk.NewCoin(w.C.Denom(), sdk.NewInt(1_000_000)),
				PlanPolicy: planstypes.Policy{TotalCuLimit: math.MaxUint64, EpochCuLimit: math.MaxUint64, MaxProvidersToPair: 4, GeolocationProfile: 1}, ProjectsLimit: 5}
			if err := w.C.Tx("planAdd(huge)", hp.ValidatePlan, func() error { return w.C.TS.TxProposalAddPlans(hp) }); err != nil {
				rt.Fatalf("%s", ev.HarnessError("cannot add the unlimited plan: %v", err))
			}
			w.Plans = append(w.Plans, hp)
		} else {
			c.Exclude(findingC10Unbacked)
		}
		logPos := 0
		checkLogs := func(where string) {
			if s.dead {
				return
			}
			c.Clause("no-transfer-refused-for-lack-of-funds")
			if bad := errLog.LackOfFunds(logPos); len(bad) > 0 {
				s.violation(rt, "%s: the chain logged a transfer refused for lack of funds: %s", where, strings.Join(bad, " | "))
			}
			logPos = errLog.Len()
		}
		w.C.BlockHook = func() {
			where := fmt.Sprintf("after the block boundary reaching height %d", w.C.Height())
			fired := 0
			// (payout timers with expiry < height have fired)
			s.check(rt, where)
			checkLogs(where)
			_ = fired
		}
		relay := chain.RelayOpts{SessionPool: 0, PastEpochs: true, Qos: true, CuChoices: []uint64{1, 10, 100, 1000, 10_000, 100_000}}
		if giant {
			relay.CuChoices = append(relay.CuChoices, 1<<63+12345, 1<<63+12345)
		}
		// wrap: error logs written by a transaction that failed are dropped with it
		wrap := func(f func(*rapid.T)) func(*rapid.T) {
			return func(rt *rapid.T) {
				pos, ok, fail := errLog.Len(), w.C.TxOK, w.C.TxFail
				defer func() {
					if w.C.TxFail > fail && w.C.TxOK == ok {
						errLog.Truncate(pos)
					}
				}()
				f(rt)
			}
		}
		acts := map[string]func(*rapid.T){
			"stakeNewChain":   w.ActStakeNewChain,
			"modifyStake":     w.ActModifyStake,
			"moveStake":       w.ActMoveStake,
			"unstake":         w.ActUnstake,
			"freeze":          w.ActFreeze,
			"dualDelegate":    w.ActDualDelegate,
			"dualRedelegate":  w.ActDualRedelegate,
			"dualUnbond":      w.ActDualUnbond,
			"claimRewards":    w.ActClaimRewards,
			"claim":           s.actClaim,
			"claim2":          s.actClaim,
			"valDelegate":     w.ActValDelegate,
			"valUnbond":       w.ActValUnbond,
			"slash":           w.ActSlash,
			"subBuy":          w.ActSubBuy,
			"subBuy2":         w.ActSubBuy,
			"advance":         s.actAdvance,
			"advance2":        s.actAdvance,
			"upgrade":         s.actUpgrade,
			"autoRenew":       w.ActAutoRenew,
			"delProject":      w.ActDelProject,
			"addProject":      w.ActAddProject,
			"planProposal":    w.ActPlanProposal,
			"iprpcSetData":    s.actIprpcSetData,
			"iprpcFund":       s.actIprpcFund,
			"iprpcFund2":      s.actIprpcFund,
			"relayPayment":    w.ActRelayPayment(relay),
			"relayPayment2":   w.ActRelayPayment(relay),
			"relayPayment3":   w.ActRelayPayment(relay),
			"relayPayment4":   w.ActRelayPayment(relay),
			"advanceBlocks":   w.ActAdvanceBlocks,
			"advanceEpoch":    w.ActAdvanceEpoch,
			"advanceTime":     w.ActAdvanceTime,
			"advanceMonth":    s.actAdvanceMonth,
			"advanceMonth2":   s.actAdvanceMonth,
			"advanceToPayout": s.actAdvanceToPayout,
			"advanceToPayou2": s.actAdvanceToPayout,
		}
		for k, f := range acts {
			acts[k] = wrap(f)
		}
		acts[""] = func(rt *rapid.T) {
			if w.C.Halt != "" {
				rt.Skip("chain halted (reported by C37)")
			}
			s.check(rt, "after the last transaction")
			checkLogs("during the last action")
		}
		s.check(rt, "after world setup")
		// Directed preamble (1 case in 3, drawn parameters): IPRPC funds on every spec for several
		// months, an eligible subscription that is served on ONE spec only, then two month boundaries
		// with the payout window in between - the state in which one funded spec was served and
		// another was not when the IPRPC month is distributed. The random history continues from there.
		if len(w.Specs) >= 2 && rapid.IntRange(0, 2).Draw(rt, "iprpcPreamble") == 0 {
			s.iprpcPreamble(rt, wrap)
		}
		rt.Repeat(acts)

		s.relaysOK = countHistOK(w, "tx relayPayment(")
		nt := (s.advSurvived > 0 || s.fundSurvived > 0) && w.C.Halt == "" && !s.dead
		var classes []string
		add := func(cond bool, name string) {
			if cond {
				classes = append(classes, name)
			}
		}
		add(s.months >= 1, "crossed-month")
		add(s.months >= 2, "crossed-2+-months")
		add(s.advBought > 0, "advance-purchase")
		add(s.advReplaced > 0, "advance-purchase-replaced-while-pending")
		add(s.advSurvived > 0, "advance-purchase-pending-at-month-boundary")
		add(s.fundLong > 0, "iprpc-fund-duration>=2")
		add(s.fundSurvived > 0, "iprpc-months>=2-at-month-boundary")
		add(s.upgrades > 0, "upgrade")
		add(s.claimedNonZero > 0, "claim-nonzero")
		add(s.relaysOK > 0, "accepted-relay")
		add(s.maxOblig[0], "dualstaking-obligations>0")
		add(s.maxOblig[1], "iprpc-obligations>0")
		add(s.maxOblig[2], "subscription-obligations>0")
		add(countHist(w, "advanceToPayout(") > 0, "advanced-to-payout")
		add(w.C.Halt != "", "halted")
		add(s.dead, "not-judged-after-wrapped-payout(known finding)")
		c.Case(nt, fingerprint(w), classes...)
		if nt {
			c.Sample(map[string]any{"history_tail": w.C.HistTail(25), "blocks": w.C.Blocks, "tx_ok": w.C.TxOK, "tx_failed": w.C.TxFail})
		}
	})
}

// Known finding: rewardDelegator (x/dualstaking/keeper/delegator_reward.go) records the reward
// and only logs a failed transfer. With a plan of unlimited CU two accepted relay payments of
// 2^63+12345 CU wrap the 64-bit CU total of the month (c11-cu-sum-wraps); the payout computes
// shares far above the credit, the transfers fail for lack of funds, and the reward records stay:
// the dualstaking account owes what it never received.
func TestC10Known_rewardRecordedAlthoughTransferFailed(t *testing.T) {
	errLog.Reset()
	w, cons := handWorld(t, 0, 1_000_000, 2, math.MaxUint64, 3)
	s := &c10State{w: w, c: ev.For("C10-witness"), witness: true}
	ep := w.C.EpochStart()
	for i, cu := range []uint64{1, 1<<63 + 12345, 1<<63 + 12345} {
		p := w.Providers[(i+2)%3]
		r := chain.RelaySpec{Cons: cons, Signer: cons.Acc, Prov: p, Chain: "SP0", Epoch: int64(ep), Session: w.NextSess, CuSum: cu}
		w.NextSess++
		if _, err := w.SendRelays(p, []chain.RelaySpec{r}); err != nil {
			t.Fatalf("%s", ev.HarnessError("relay payment: %v", err))
		}
	}
	w.C.BlockHook = func() {
		where := fmt.Sprintf("after the block boundary reaching height %d", w.C.Height())
		s.check(t, where)
		if bad := errLog.LackOfFunds(0); len(bad) > 0 {
			s.violation(t, "%s: the chain logged a transfer refused for lack of funds: %s", where, bad[0])
		}
	}
	for i := 0; i < 32; i++ {
		w.C.AdvanceBlock(24 * time.Hour)
	}
	w.C.AdvanceBlocks(400, 0)
	t.Logf("no violation observed (finding does not reproduce)")
}
