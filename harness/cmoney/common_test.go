package cmoney

import (
	"fmt"
	"math/big"
	"sort"
	"strings"

	sdk "github.com/cosmos/cosmos-sdk/types"
	distributiontypes "github.com/cosmos/cosmos-sdk/x/distribution/types"
	testkeeper "github.com/lavanet/lava/v5/testutil/keeper"
	rewardstypes "github.com/lavanet/lava/v5/x/rewards/types"
	subscriptiontypes "github.com/lavanet/lava/v5/x/subscription/types"
	"pgregory.net/rapid"

	"verifharness/internal/chain"
)

func histString(w *chain.World, n int) string {
	return strings.Join(w.C.HistTail(n), "\n  ")
}

func fingerprint(w *chain.World) string { return fmt.Sprint(w.C.Hist) }

func pick[T any](t *rapid.T, label string, xs []T) T {
	return xs[rapid.IntRange(0, len(xs)-1).Draw(t, label)]
}

func lastTxOK(w *chain.World) bool {
	if len(w.C.Hist) == 0 {
		return false
	}
	return strings.HasSuffix(w.C.Hist[len(w.C.Hist)-1], "-> ok")
}

func modBal(w *chain.World, module string) sdk.Coins {
	return sdk.NewCoins(w.C.ModuleBalance(module)...)
}

func modAmt(w *chain.World, module string) sdk.Int {
	return w.C.ModuleBalance(module).AmountOf(w.C.Denom())
}

func poolAmt(w *chain.World, p rewardstypes.Pool) sdk.Int { return modAmt(w, string(p)) }

func communityAmt(w *chain.World) sdk.Int { return modAmt(w, distributiontypes.ModuleName) }

func moduleAddr(module string) string { return testkeeper.GetModuleAddress(module).String() }

// pendingPayout is one CU-tracker timer: the month credit of subscription Sub (fixation block
// Block) that is paid out when the chain reaches height Expiry.
type pendingPayout struct {
	Sub    string
	Expiry uint64
	Block  uint64
	Credit sdk.Coin
}

// pendingPayouts decodes the CU-tracker timer store (raw state).
func pendingPayouts(w *chain.World) ([]pendingPayout, error) {
	gs := w.C.TS.Keepers.Subscription.ExportCuTrackerTimers(w.C.TS.Ctx)
	var out []pendingPayout
	for _, e := range gs.BlockEntries {
		var td subscriptiontypes.CuTrackerTimerData
		if err := td.Unmarshal(e.Data); err != nil {
			return nil, fmt.Errorf("cannot decode CU tracker timer data of %s@%d: %w", e.Key, e.Value, err)
		}
		out = append(out, pendingPayout{Sub: e.Key, Expiry: e.Value, Block: td.Block, Credit: td.Credit})
	}
	if len(gs.TimeEntries) != 0 {
		return nil, fmt.Errorf("unexpected block-time entries in the CU tracker timer store")
	}
	sort.Slice(out, func(i, j int) bool {
		if out[i].Expiry != out[j].Expiry {
			return out[i].Expiry < out[j].Expiry
		}
		return out[i].Sub < out[j].Sub
	})
	return out, nil
}

// latestSub returns the newest version (possibly a future one, written by an upgrade for the
// next epoch) of a consumer's subscription.
func latestSub(w *chain.World, consumer string) (subscriptiontypes.Subscription, bool) {
	sub, _, found := w.C.TS.Keepers.Subscription.GetSubscriptionForBlock(w.C.TS.Ctx, consumer, w.C.Height()+1_000_000)
	return sub, found
}

func bigOf(i sdk.Int) *big.Int { return i.BigInt() }

func mulDivFloor(a, b, c *big.Int) *big.Int {
	x := new(big.Int).Mul(a, b)
	return x.Quo(x, c)
}

func u64(x uint64) *big.Int { return new(big.Int).SetUint64(x) }

// nextMonthBoundaries counts advanceMonth actions in the history.
func countHist(w *chain.World, sub string) int {
	n := 0
	for _, h := range w.C.Hist {
		if strings.Contains(h, sub) {
			n++
		}
	}
	return n
}

func countHistOK(w *chain.World, sub string) int {
	n := 0
	for _, h := range w.C.Hist {
		if strings.Contains(h, sub) && strings.HasSuffix(h, "-> ok") {
			n++
		}
	}
	return n
}

// advanceToHeight advances block by block (default block time) up to height h, at most max blocks.
func advanceToHeight(w *chain.World, h uint64, max int) bool {
	for i := 0; w.C.Height() < h && i < max; i++ {
		if !w.C.AdvanceBlock(0) {
			return false
		}
	}
	return w.C.Height() >= h
}
