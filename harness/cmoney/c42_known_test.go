package cmoney

import (
	"testing"

	"verifharness/internal/chain"
	"verifharness/internal/ev"
)

// Known finding (same root cause as c11-zero-contributor-cut-drops-provider-share): when the
// contributors' cut of a provider's IPRPC reward rounds down to zero, PayContributors fails and
// RewardProvidersAndDelegators returns before the provider is rewarded. distributeIprpcRewards
// has already counted the reward as used, so it is neither paid nor sent to the community pool
// with the leftovers: it stays in the IPRPC pool, which then holds more than the outstanding funds.
func TestC42Known_zeroContributorCut(t *testing.T) {
	w, cons := handWorld(t, 10, 1_000_000, 4, 1_000_000, 2)
	s := newC42State(w, ev.For("C42-witness"))
	s.witness = true
	s.setData(t, []string{cons.Addr()}, 0)
	if err := s.fund(cons, "SP0", 1, 1000); err != nil {
		t.Fatalf("%s", ev.HarnessError("fund: %v", err))
	}
	s.checkLedger(t, "after funding")
	s.advanceDays(t, 31) // boundary: the current (unfunded) month ends, the funded month begins
	if w.C.Halt != "" {
		t.Skipf("chain halted (C37 reports halts): %s", w.C.Halt)
	}
	if s.boundaries != 1 {
		t.Fatalf("%s", ev.HarnessError("expected one month boundary, saw %d", s.boundaries))
	}
	for i, cu := range []uint64{1000, 5} {
		p := w.Providers[i]
		r := chain.RelaySpec{Cons: cons, Signer: cons.Acc, Prov: p, Chain: "SP0", Epoch: int64(w.C.EpochStart()), Session: w.NextSess, CuSum: cu}
		w.NextSess++
		if err := s.sendRelay(p, []chain.RelaySpec{r}); err != nil {
			t.Fatalf("%s", ev.HarnessError("relay payment: %v", err))
		}
	}
	s.advanceDays(t, 31) // boundary: the funded month is distributed
	if w.C.Halt != "" {
		t.Skipf("chain halted (C37 reports halts): %s", w.C.Halt)
	}
	if s.boundaries != 2 {
		t.Fatalf("%s", ev.HarnessError("expected two month boundaries, saw %d", s.boundaries))
	}
}
