package cmoney

import (
	"fmt"
	"math/big"
	"strings"
	"testing"
	"time"

	sdk "github.com/cosmos/cosmos-sdk/types"
	authtypes "github.com/cosmos/cosmos-sdk/x/auth/types"
	testkeeper "github.com/lavanet/lava/v5/testutil/keeper"
	rewardstypes "github.com/lavanet/lava/v5/x/rewards/types"
	"pgregory.net/rapid"

	"verifharness/internal/chain"
	"verifharness/internal/ev"
)

// C21: reward pools release funds on schedule and within balance.
//
// Every block is observed through the balances of the five reward pools, the fee collector,
// the reward records and the total supply:
//   - a validator block reward never exceeds the validators distribution pool;
//   - at a refill: burned == floor(rate * validators distribution pool) + everything left in the
//     providers distribution pool after the month's bonus rewards; then each distribution pool
//     receives floor(allocation / months-left); the month's bonus rewards <= providers
//     distribution pool before;
//   - at a subscription payout: the validators' share lands in the leftover pool iff the next
//     refill is less than 24 h away, else in the distribution pool.

const (
	findingEndOfMonth = "c21-is-end-of-month-always-true"
	daySeconds        = 24 * 60 * 60
)

type c21State struct {
	w       *chain.World
	c       *ev.Collector
	witness bool

	refills     int
	contribIn   int // contributions observed inside the last 24 h
	contribOut  int // contributions observed outside the last 24 h
	classes     map[string]bool
	fp          []string
	bonusMonths int
}

func (s *c21State) class(n string)         { s.classes[n] = true }
func (s *c21State) excluded(f string) bool { return !s.witness && ev.Excluded(f) }

func (s *c21State) violation(rt fataler, format string, args ...any) {
	rt.Fatalf("%s", ev.Violation("C21", "%s\nhistory (tail):\n  %s", fmt.Sprintf(format, args...), histString(s.w, 40)))
}

type c21Snap struct {
	valAlloc, valDist, valLeft, provAlloc, provDist, fee sdk.Int
	supply                                               sdk.Int
	paid                                                 sdk.Int // sum of all reward records + contributor balances (bond denom)
}

func (s *c21State) snapshot(full bool) c21Snap {
	w := s.w
	denom := w.C.Denom()
	if !full { // plain block: only the validators distribution pool and the fee collector matter
		return c21Snap{valDist: poolAmt(w, rewardstypes.ValidatorsRewardsDistributionPoolName), fee: modAmt(w, authtypes.FeeCollectorName)}
	}
	sn := c21Snap{
		valAlloc:  poolAmt(w, rewardstypes.ValidatorsRewardsAllocationPoolName),
		valDist:   poolAmt(w, rewardstypes.ValidatorsRewardsDistributionPoolName),
		valLeft:   poolAmt(w, rewardstypes.ValidatorsRewardsLeftOverPoolName),
		provAlloc: poolAmt(w, rewardstypes.ProvidersRewardsAllocationPool),
		provDist:  poolAmt(w, rewardstypes.ProviderRewardsDistributionPool),
		fee:       modAmt(w, authtypes.FeeCollectorName),
		supply:    w.C.Supply(denom),
	}
	paid := sdk.ZeroInt()
	for _, r := range w.C.TS.Keepers.Dualstaking.GetAllDelegatorReward(w.C.TS.Ctx) {
		paid = paid.Add(r.Amount.AmountOf(denom))
	}
	for _, sp := range w.Specs {
		for _, a := range sp.Contributor {
			acc, _ := sdk.AccAddressFromBech32(a)
			paid = paid.Add(w.C.Balance(acc))
		}
	}
	sn.paid = paid
	return sn
}

func (s *c21State) step(rt fataler, delta time.Duration) bool {
	w := s.w
	if w.C.Halt != "" {
		return false
	}
	ks := w.C.TS.Keepers
	ctx := w.C.TS.Ctx
	ttr := ks.Rewards.TimeToNextTimerExpiry(ctx) // seconds from this block's time to the next refill
	refill := ttr <= 0
	pend, err := pendingPayouts(w)
	if err != nil {
		rt.Fatalf("%s", ev.HarnessError("%v", err))
	}
	var firing []pendingPayout
	for _, p := range pend {
		if p.Expiry <= w.C.Height() {
			firing = append(firing, p)
		}
	}
	if len(firing) > 0 {
		delta = 0
	}
	pre := s.snapshot(refill || len(firing) > 0)
	monthsLeft := ks.Rewards.AllocationPoolMonthsLeft(ctx)
	burnRate := ks.Rewards.GetParams(ctx).LeftoverBurnRate
	// credits that go straight to the validators distribution pool: payouts without tracked CU of
	// subscriptions that are gone (not a share of provider rewards)
	returned := sdk.ZeroInt()
	paysProviders := false
	for _, p := range firing {
		total := new(big.Int)
		for _, idx := range ks.Subscription.GetAllSubTrackedCuIndices(ctx, p.Sub) {
			parts := strings.Split(idx, " ")
			if len(parts) != 3 {
				continue
			}
			if cu, found, _ := ks.Subscription.GetTrackedCu(ctx, p.Sub, parts[1], parts[2], p.Block); found {
				total.Add(total, u64(cu))
			}
		}
		if total.Sign() == 0 {
			if _, _, found := ks.Subscription.GetSubscriptionForBlock(ctx, p.Sub, w.C.Height()); !found {
				returned = returned.Add(p.Credit.Amount)
			}
		} else {
			paysProviders = true
		}
	}
	height := w.C.Height()
	if !w.C.AdvanceBlock(delta) {
		return false
	}
	post := s.snapshot(refill || len(firing) > 0)
	reward := post.fee.Sub(pre.fee) // the fee collector only receives validator block rewards

	switch {
	case refill && len(firing) > 0:
		s.class("block:refill-and-payout(skipped)")
	case refill:
		s.refills++
		s.checkRefill(rt, height, pre, post, reward, monthsLeft, burnRate)
	case len(firing) > 0:
		s.checkContribution(rt, height, pre, post, reward, ttr, returned, paysProviders)
	default:
		s.c.Clause("block-reward<=validators-distribution-pool")
		if reward.GT(pre.valDist) {
			s.violation(rt, "block %d: validators received a block reward of %s, the validators distribution pool held %s", height+1, reward, pre.valDist)
		}
	}
	return true
}

func (s *c21State) checkRefill(rt fataler, height uint64, pre, post c21Snap, reward sdk.Int, monthsLeft int64, burnRate sdk.Dec) {
	w := s.w
	bonus := post.paid.Sub(pre.paid) // bonus rewards of the month (records + contributors)
	desc := fmt.Sprintf("refill at height %d: before valAlloc=%s valDist=%s leftover=%s provAlloc=%s provDist=%s monthsLeft=%d burnRate=%s bonus=%s; after valAlloc=%s valDist=%s leftover=%s provAlloc=%s provDist=%s blockReward=%s supplyDelta=%s",
		height, pre.valAlloc, pre.valDist, pre.valLeft, pre.provAlloc, pre.provDist, monthsLeft, burnRate, bonus,
		post.valAlloc, post.valDist, post.valLeft, post.provAlloc, post.provDist, reward, post.supply.Sub(pre.supply))
	w.C.Logf("observed %s", desc)
	s.fp = append(s.fp, fmt.Sprintf("refill(m=%d r=%s V=%s P=%s AV=%s AP=%s B=%s)", monthsLeft, burnRate, pre.valDist, pre.provDist, pre.valAlloc, pre.provAlloc, bonus))
	s.c.Clause("bonus-rewards<=providers-distribution-pool")
	if bonus.IsNegative() || bonus.GT(pre.provDist) {
		s.violation(rt, "bonus rewards of the month %s exceed the providers distribution pool %s; %s", bonus, pre.provDist, desc)
	}
	if bonus.IsPositive() {
		s.bonusMonths++
		s.class("refill:bonus-rewards-paid")
	}
	quota := func(alloc sdk.Int) sdk.Int {
		if monthsLeft <= 0 || alloc.IsZero() {
			return sdk.ZeroInt()
		}
		return alloc.QuoRaw(monthsLeft)
	}
	burnV := burnRate.MulInt(pre.valDist).TruncateInt()
	burnP := pre.provDist.Sub(bonus)
	qv, qp := quota(pre.valAlloc), quota(pre.provAlloc)
	var diffs []string
	cmp := func(what string, got, want sdk.Int) {
		if !got.Equal(want) {
			diffs = append(diffs, fmt.Sprintf("%s: observed %s, expected %s", what, got, want))
		}
	}
	s.c.Clause("refill:burn==floor(rate*validators-dist)+all-of-providers-dist")
	cmp("burned (supply decrease)", pre.supply.Sub(post.supply), burnV.Add(burnP))
	s.c.Clause("refill:each-distribution-pool+=allocation/months-left")
	cmp("validators allocation pool", post.valAlloc, pre.valAlloc.Sub(qv))
	cmp("providers allocation pool", post.provAlloc, pre.provAlloc.Sub(qp))
	cmp("providers distribution pool", post.provDist, qp)
	cmp("validators distribution pool (+ block reward paid after the refill)", post.valDist.Add(reward), pre.valDist.Sub(burnV).Add(qv).Add(pre.valLeft))
	cmp("validators leftover pool", post.valLeft, sdk.ZeroInt())
	s.c.Clause("block-reward<=validators-distribution-pool")
	if reward.GT(post.valDist.Add(reward)) {
		diffs = append(diffs, "block reward exceeds the pool")
	}
	if len(diffs) > 0 {
		s.violation(rt, "%s; %s", strings.Join(diffs, "; "), desc)
	}
	if !burnV.IsZero() {
		s.class("refill:validators-leftover-burned")
	}
	if burnP.IsPositive() {
		s.class("refill:providers-leftover-burned")
	}
	if pre.valLeft.IsPositive() {
		s.class("refill:leftover-pool-moved")
	}
	if qv.IsZero() {
		s.class("refill:no-validators-quota")
	}
}

func (s *c21State) checkContribution(rt fataler, height uint64, pre, post c21Snap, reward sdk.Int, ttr int64, returned sdk.Int, paysProviders bool) {
	dLeft := post.valLeft.Sub(pre.valLeft)
	dDist := post.valDist.Add(reward).Sub(pre.valDist).Sub(returned)
	x := dLeft.Add(dDist) // validators' share of the provider rewards paid in this block
	if !paysProviders || !x.IsPositive() {
		return
	}
	s.w.C.Logf("observed contribution at height %d: validators share %s (leftover +%s, distribution +%s), %d s to the next refill", height, x, dLeft, dDist, ttr)
	if ttr == daySeconds {
		return // exactly on the line: either pool is accepted
	}
	inside := ttr < daySeconds
	if inside {
		s.contribIn++
		s.class("contribution:inside-last-24h")
	} else {
		s.contribOut++
		s.class("contribution:outside-last-24h")
		if s.excluded(findingEndOfMonth) {
			s.c.Exclude(findingEndOfMonth)
			return
		}
	}
	s.fp = append(s.fp, fmt.Sprintf("contrib(%s,ttr=%d)", x, ttr))
	s.c.Clause("validators-share-in-leftover-pool-iff-less-than-24h-to-refill")
	if inside && !dDist.IsZero() {
		s.violation(rt, "payout at height %d, %d s (< 24 h) before the next refill: validators' share %s went to the distribution pool (+%s) instead of the leftover pool (+%s)", height, ttr, x, dDist, dLeft)
	}
	if !inside && !dLeft.IsZero() {
		s.violation(rt, "payout at height %d, %d s (>= 24 h) before the next refill: validators' share %s went to the leftover pool (+%s) instead of the distribution pool (+%s)", height, ttr, x, dLeft, dDist)
	}
}

// ---- actions -------------------------------------------------------------------------------------

func (s *c21State) toNextEpoch(rt fataler) {
	w := s.w
	next, err := w.C.TS.Keepers.Epochstorage.GetNextEpoch(w.C.TS.Ctx, w.C.EpochStart())
	if err != nil {
		return
	}
	for w.C.Height() < next {
		if !s.step(rt, 0) {
			return
		}
	}
}

func (s *c21State) actAdvanceEpoch(rt *rapid.T) {
	s.w.C.Logf("advanceEpochs(1)")
	s.toNextEpoch(rt)
}

func (s *c21State) advanceHours(rt fataler, hours int) {
	s.w.C.Logf("advanceTime(%dh)", hours)
	// in steps of at most 12 h so that payouts and refills are observed close to their time
	for hours > 0 {
		h := hours
		if h > 12 {
			h = 12
		}
		if !s.step(rt, time.Duration(h)*time.Hour) {
			return
		}
		hours -= h
	}
	s.toNextEpoch(rt)
}

func (s *c21State) actAdvanceHours(rt *rapid.T) {
	s.advanceHours(rt, rapid.SampledFrom([]int{1, 6, 23, 25, 24 * 3, 24 * 10, 24 * 27}).Draw(rt, "hours"))
}

// actAdvanceNearRefill moves to a drawn distance before the next refill (inside or outside the
// last 24 h).
func (s *c21State) actAdvanceNearRefill(rt *rapid.T) {
	ttr := s.w.C.TS.Keepers.Rewards.TimeToNextTimerExpiry(s.w.C.TS.Ctx)
	before := int64(rapid.SampledFrom([]int{1, 6, 20, 23, 25, 30, 48}).Draw(rt, "hoursBeforeRefill")) * 3600
	if ttr <= before+3600 {
		rt.Skip("already closer")
	}
	s.advanceHours(rt, int((ttr-before)/3600))
}

func (s *c21State) actAdvancePastRefill(rt *rapid.T) {
	ttr := s.w.C.TS.Keepers.Rewards.TimeToNextTimerExpiry(s.w.C.TS.Ctx)
	s.advanceHours(rt, int(ttr/3600)+rapid.SampledFrom([]int{1, 2, 30}).Draw(rt, "hoursPast"))
}

func (s *c21State) actAdvanceToPayout(rt *rapid.T) {
	w := s.w
	pend, err := pendingPayouts(w)
	if err != nil {
		rt.Fatalf("%s", ev.HarnessError("%v", err))
	}
	if len(pend) == 0 {
		rt.Skip("no pending payout")
	}
	target := pend[0].Expiry + 1
	w.C.Logf("advanceToPayout(height %d)", target)
	// the block time on the way is drawn: the payout then falls at different times of the month
	dt := time.Duration(rapid.SampledFrom([]int{0, 0, 600, 3600, 4 * 3600}).Draw(rt, "blockSeconds")) * time.Second
	for i := 0; w.C.Height() < target && i < 400; i++ {
		if !s.step(rt, dt) {
			return
		}
	}
}

func (s *c21State) actRelayBurst(rt *rapid.T) {
	w := s.w
	cons := w.LiveConsumers()
	if len(cons) == 0 {
		rt.Skip("no live consumer")
	}
	c := pick(rt, "consumer", cons)
	chainID := pick(rt, "chain", w.Specs).Index
	paired := w.PairedProviders(chainID, c.Addr())
	if len(paired) == 0 {
		rt.Skip("no pairing")
	}
	epoch := w.C.EpochStart()
	for i, p := range paired {
		cu := rapid.SampledFrom([]uint64{1, 10, 1000, 100_000}).Draw(rt, fmt.Sprintf("cu%d", i))
		r := chain.RelaySpec{Cons: c, Signer: c.Acc, Prov: p, Chain: chainID, Epoch: int64(epoch), Session: w.NextSess, CuSum: cu}
		w.NextSess++
		_, _ = w.SendRelays(p, []chain.RelaySpec{r})
	}
}

func (s *c21State) actBurnRate(rt *rapid.T) {
	w := s.w
	ks := w.C.TS.Keepers
	rate := sdk.NewDecWithPrec(int64(rapid.SampledFrom([]int{0, 1, 33, 50, 100}).Draw(rt, "burnRatePct")), 2)
	_ = w.C.Tx(fmt.Sprintf("paramChange(LeftoverBurnRate=%s)", rate), nil, func() error {
		p := ks.Rewards.GetParams(w.C.TS.Ctx)
		p.LeftoverBurnRate = rate
		ks.Rewards.SetParams(w.C.TS.Ctx, p)
		return nil
	})
}

func setPool(w *chain.World, pool rewardstypes.Pool, amount int64) {
	coins := sdk.NewCoins()
	if amount > 0 {
		coins = sdk.NewCoins(sdk.NewCoin(w.C.Denom(), sdk.NewInt(amount)))
	}
	_ = w.C.TS.Keepers.BankKeeper.SetBalance(w.C.TS.Ctx, testkeeper.GetModuleAddress(string(pool)), coins)
}

func TestC21(t *testing.T) {
	c := ev.For("C21")
	c.SetRule("rapid state machine on a generated world (1-2 specs with shares 1 or 5, contributors, 2-5 providers, 1-3 consumers) whose pool balances (allocation pools 0..3*10^13, distribution pools 0..10^9) and leftover burn rate are drawn at setup: relay bursts (base pay for bonus rewards and subscription payouts), subscription buys/auto-renewal, stake changes, burn-rate changes, and block-time progressions in steps of <= 12 h that stop 1..48 h before a refill, pass refills and walk to payout blocks with drawn block times, over 2-4 refills; every block is observed; non-trivial = >=1 refill observed and a subscription payout with a positive validators' share on each side of the 24 h line; distinct = distinct sequences of observed refills and contributions")
	c.Assume("balances of pool accounts are set only during setup (as a genesis would); months-left is read from the refill timer's data",
		"bonus rewards of a month = increase of all reward records and contributor balances in the refill block (no IPRPC funds exist in these histories); the fee collector receives validator block rewards only",
		"a block in which both the refill and a subscription payout happen is not judged; the destination of the validators' share is judged for subscription payouts only (the share of IPRPC rewards is moved on to the distribution pool inside the same refill block and cannot be observed)",
		"a payout exactly 24 h before the refill may use either pool; credits of unused months of expired subscriptions go to the distribution pool and are not a share of provider rewards")
	rapid.Check(t, func(rt *rapid.T) {
		errLog.Reset()
		w := chain.NewWorld(rt, t, chain.Cfg{RichSpec: false, Contrib: true, Specs: [2]int{1, 2}, Providers: [2]int{2, 5}, Consumers: [2]int{1, 3}, Plans: [2]int{1, 2}, Delegators: [2]int{0, 2}})
		s := &c21State{w: w, c: c, classes: map[string]bool{}}
		ks := w.C.TS.Keepers
		// pools and parameters
		setPool(w, rewardstypes.ValidatorsRewardsAllocationPoolName, int64(rapid.SampledFrom([]int{0, 47, 1000, 7_777_777, 30_000_000_000_000}).Draw(rt, "valAlloc")))
		setPool(w, rewardstypes.ProvidersRewardsAllocationPool, int64(rapid.SampledFrom([]int{0, 47, 1000, 7_777_777, 30_000_000_000_000}).Draw(rt, "provAlloc")))
		setPool(w, rewardstypes.ValidatorsRewardsDistributionPoolName, int64(rapid.SampledFrom([]int{0, 3, 999, 1_000_000_000}).Draw(rt, "valDist")))
		setPool(w, rewardstypes.ProviderRewardsDistributionPool, int64(rapid.SampledFrom([]int{0, 3, 999, 1_000_000_000}).Draw(rt, "provDist")))
		rp := ks.Rewards.GetParams(w.C.TS.Ctx)
		rp.LeftoverBurnRate = sdk.NewDecWithPrec(int64(rapid.SampledFrom([]int{0, 33, 50, 100}).Draw(rt, "burnRatePct")), 2)
		ks.Rewards.SetParams(w.C.TS.Ctx, rp)
		for i := range w.Specs {
			if rapid.Bool().Draw(rt, fmt.Sprintf("spec%d_shares5", i)) {
				sp, _ := ks.Spec.GetSpec(w.C.TS.Ctx, w.Specs[i].Index)
				sp.Shares = 5
				ks.Spec.SetSpec(w.C.TS.Ctx, sp)
			}
		}
		// an expensive plan so that validators' shares are positive
		relay := chain.RelayOpts{CuChoices: []uint64{10, 1000, 100_000}, PastEpochs: true}
		acts := map[string]func(*rapid.T){
			"relayBurst":        s.actRelayBurst,
			"relayBurst2":       s.actRelayBurst,
			"relay":             w.ActRelayPayment(relay),
			"relay2":            w.ActRelayPayment(relay),
			"subBuy":            w.ActSubBuy,
			"autoRenew":         w.ActAutoRenew,
			"modifyStake":       w.ActModifyStake,
			"dualDelegate":      w.ActDualDelegate,
			"claimRewards":      w.ActClaimRewards,
			"burnRate":          s.actBurnRate,
			"advanceEpoch":      s.actAdvanceEpoch,
			"advanceHours":      s.actAdvanceHours,
			"advanceNearRefill": s.actAdvanceNearRefill,
			"advancePastRefill": s.actAdvancePastRefill,
			"advancePastRefil2": s.actAdvancePastRefill,
			"advanceToPayout":   s.actAdvanceToPayout,
			"advanceToPayout2":  s.actAdvanceToPayout,
			"": func(rt *rapid.T) {
				if w.C.Halt != "" {
					rt.Skip("chain halted (reported by C37)")
				}
			},
		}
		rt.Repeat(acts)
		nt := s.refills >= 1 && s.contribIn > 0 && s.contribOut > 0 && w.C.Halt == ""
		s.class(fmt.Sprintf("refills=%d", min(s.refills, 5)))
		if w.C.Halt != "" {
			s.class("halted")
		}
		c.AddExtra("refills_observed", s.refills)
		c.AddExtra("contributions_inside_24h", s.contribIn)
		c.AddExtra("contributions_outside_24h", s.contribOut)
		c.Case(nt, strings.Join(s.fp, "|"), chain.SortedKeys(s.classes)...)
		if nt {
			c.Sample(map[string]any{"observed": s.fp, "history_tail": w.C.HistTail(12)})
		}
	})
}

// Known finding: isEndOfMonth compares `now + 86400 > (expiry - now)` (a timestamp with a
// duration) and is therefore always true: the validators' share of provider rewards always
// lands in the leftover pool, also weeks before the next refill.
func TestC21Known_isEndOfMonthAlwaysTrue(t *testing.T) {
	w, cons := handWorld(t, 0, 1_000_000, 3, 1_000_000, 2)
	s := &c21State{w: w, c: ev.For("C21-witness"), classes: map[string]bool{}, witness: true}
	r := chain.RelaySpec{Cons: cons, Signer: cons.Acc, Prov: w.Providers[0], Chain: "SP0", Epoch: int64(w.C.EpochStart()), Session: w.NextSess, CuSum: 100_000}
	w.NextSess++
	if _, err := w.SendRelays(w.Providers[0], []chain.RelaySpec{r}); err != nil {
		t.Fatalf("%s", ev.HarnessError("relay payment: %v", err))
	}
	s.advanceHours(t, 24*32) // the subscription month ends, the pools are refilled
	pend, _ := pendingPayouts(w)
	if len(pend) == 0 {
		t.Fatalf("%s", ev.HarnessError("no pending payout"))
	}
	for i := 0; w.C.Height() <= pend[0].Expiry && i < 600; i++ {
		if !s.step(t, 0) {
			t.Skipf("chain halted (C37 reports halts): %s", w.C.Halt)
		}
	}
	if w.C.Halt != "" {
		t.Skipf("chain halted (C37 reports halts): %s", w.C.Halt)
	}
	if s.contribOut == 0 {
		t.Fatalf("%s", ev.HarnessError("no contribution observed outside the last 24 h (inside: %d)", s.contribIn))
	}
}
