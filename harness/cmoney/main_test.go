package cmoney

import (
	"os"
	"strings"
	"sync"
	"testing"

	"github.com/lavanet/lava/v5/utils"
	"github.com/rs/zerolog"
	zerologlog "github.com/rs/zerolog/log"

	"verifharness/internal/ev"
)

// logCapture receives the error-level log lines of the code under test (JSON, one event per
// Write). Keepers only LOG some failed transfers (rewardDelegator, returnCreditToSub, IPRPC
// leftovers), so "no payout fails for lack of funds" has to look at the error log.
type logCapture struct {
	mu      sync.Mutex
	entries []string
}

func (l *logCapture) Write(p []byte) (int, error) {
	l.mu.Lock()
	if len(l.entries) < 4096 {
		l.entries = append(l.entries, string(p))
	}
	l.mu.Unlock()
	return len(p), nil
}

func (l *logCapture) Len() int {
	l.mu.Lock()
	defer l.mu.Unlock()
	return len(l.entries)
}

func (l *logCapture) Reset() {
	l.mu.Lock()
	l.entries = nil
	l.mu.Unlock()
}

// Truncate drops the entries from position pos on.
func (l *logCapture) Truncate(pos int) {
	l.mu.Lock()
	if pos < len(l.entries) {
		l.entries = l.entries[:pos]
	}
	l.mu.Unlock()
}

// lackOfFundsTexts are the messages with which the bank (the repository's mock, the real bank
// module, sdk.Coins.Sub) refuses a transfer the sender cannot afford.
var lackOfFundsTexts = []string{"not enough coins", "insufficient funds", "negative coin amount", "can't sub"}

func isLackOfFunds(s string) bool {
	for _, t := range lackOfFundsTexts {
		if strings.Contains(s, t) {
			return true
		}
	}
	return false
}

// LackOfFunds returns the captured entries from pos on that report a transfer refused for
// lack of funds.
func (l *logCapture) LackOfFunds(pos int) []string {
	l.mu.Lock()
	defer l.mu.Unlock()
	var out []string
	for i := pos; i < len(l.entries); i++ {
		if isLackOfFunds(l.entries[i]) {
			out = append(out, strings.TrimSpace(l.entries[i]))
		}
	}
	return out
}

// Since returns (at most 8 of) the entries from pos on.
func (l *logCapture) Since(pos int) []string {
	l.mu.Lock()
	defer l.mu.Unlock()
	var out []string
	for i := pos; i < len(l.entries) && len(out) < 8; i++ {
		out = append(out, strings.TrimSpace(l.entries[i]))
	}
	return out
}

var errLog = &logCapture{}

func TestMain(m *testing.M) {
	// only error-level events are formatted and they go to the capture buffer; everything below
	// is dropped before formatting (as fast as zerolog.Disabled)
	utils.SetGlobalLoggingLevel("error")
	zerolog.SetGlobalLevel(zerolog.ErrorLevel)
	zerologlog.Logger = zerolog.New(errLog)
	code := m.Run()
	ev.Flush()
	os.Exit(code)
}
