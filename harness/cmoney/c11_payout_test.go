package cmoney

import (
	"fmt"
	"math"
	"math/big"
	"sort"
	"strings"
	"testing"
	"time"

	sdk "github.com/cosmos/cosmos-sdk/types"
	authtypes "github.com/cosmos/cosmos-sdk/x/auth/types"
	"github.com/lavanet/lava/v5/utils/sigs"
	planstypes "github.com/lavanet/lava/v5/x/plans/types"
	rewardstypes "github.com/lavanet/lava/v5/x/rewards/types"
	spectypes "github.com/lavanet/lava/v5/x/spec/types"
	subscriptiontypes "github.com/lavanet/lava/v5/x/subscription/types"
	"pgregory.net/rapid"

	"verifharness/internal/chain"
	"verifharness/internal/ev"
)

// C11: monthly subscription payouts are bounded and proportional.
//
// The check watches every block in which a CU-tracker timer (monthly payout) fires and compares
// the token movements of that block with the law of the statement, computed in big-int
// arithmetic from a model of the tracked CU (fed by the accepted relay payments) and the credit
// carried by the timer.

const (
	perCuLimit         = 100 // tokens per CU (the per-CU limit of the statement)
	findingCuSumWraps  = "c11-cu-sum-wraps"
	findingZeroContrib = "c11-zero-contributor-cut-drops-provider-share"
	findingLateRelay   = "c11-late-relay-entry-marked-latest"
	hugePlanTotalLimit = math.MaxUint64
)

type cuKey struct {
	Sub   string
	Block uint64
	Prov  string
	Chain string
}

type fataler interface {
	Fatalf(format string, args ...any)
}

type c11State struct {
	w     *chain.World
	c     *ev.Collector
	model map[cuKey]*big.Int // tracked CU not yet paid out

	// evidence
	payoutsSeen     int
	payoutsNT       int
	classes         map[string]bool
	fpParts         []string
	upgradeAt       map[string]uint64 // consumer -> height of last accepted plan change
	monthEndAt      map[string]uint64
	hugeInjected    int
	witness         bool
	dead            bool // a payout with wrapped CU total fired while that finding is excluded: later blocks are not judged
	exclWrapAvoided int
}

func (s *c11State) class(name string) { s.classes[name] = true }

// excluded: witness tests of the known findings never exclude anything.
func (s *c11State) excluded(finding string) bool { return !s.witness && ev.Excluded(finding) }

func (s *c11State) violation(rt fataler, format string, args ...any) {
	rt.Fatalf("%s", ev.Violation("C11", "%s\nhistory (tail):\n  %s", fmt.Sprintf(format, args...), histString(s.w, 45)))
}

// ---- observation -------------------------------------------------------------------------------

type c11Snap struct {
	subMod    sdk.Int
	val       sdk.Int // validators distribution + leftover pool + fee collector
	comm      sdk.Int
	contrib   map[string]sdk.Int // contributor address -> balance
	rec       map[string]sdk.Int // provider -> sum of recorded rewards (bond denom) of all its delegators
	subCredit map[string]sdk.Int // consumer -> credit of the subscription version current at the payout height
	subFound  map[string]bool
}

func (s *c11State) snapshot(subs []string, atHeight uint64) c11Snap {
	w := s.w
	ks := w.C.TS.Keepers
	ctx := w.C.TS.Ctx
	denom := w.C.Denom()
	sn := c11Snap{contrib: map[string]sdk.Int{}, rec: map[string]sdk.Int{}, subCredit: map[string]sdk.Int{}, subFound: map[string]bool{}}
	sn.subMod = modAmt(w, subscriptiontypes.ModuleName)
	sn.val = poolAmt(w, rewardstypes.ValidatorsRewardsDistributionPoolName).Add(poolAmt(w, rewardstypes.ValidatorsRewardsLeftOverPoolName)).Add(modAmt(w, authtypes.FeeCollectorName))
	sn.comm = communityAmt(w)
	for _, sp := range w.Specs {
		for _, a := range sp.Contributor {
			acc, _ := sdk.AccAddressFromBech32(a)
			sn.contrib[a] = w.C.Balance(acc)
		}
	}
	for _, r := range ks.Dualstaking.GetAllDelegatorReward(ctx) {
		cur, ok := sn.rec[r.Provider]
		if !ok {
			cur = sdk.ZeroInt()
		}
		sn.rec[r.Provider] = cur.Add(r.Amount.AmountOf(denom))
	}
	for _, sub := range subs {
		e, _, found := ks.Subscription.GetSubscriptionForBlock(ctx, sub, atHeight)
		sn.subFound[sub] = found
		if found {
			sn.subCredit[sub] = e.Credit.Amount
		} else {
			sn.subCredit[sub] = sdk.ZeroInt()
		}
	}
	return sn
}

// expected token movements of one block
type c11Expect struct {
	out       *big.Int
	val       *big.Int
	comm      *big.Int
	contrib   map[string]*big.Int
	rec       map[string]*big.Int
	subCredit map[string]*big.Int
	notes     []string
}

func newExpect() *c11Expect {
	return &c11Expect{out: new(big.Int), val: new(big.Int), comm: new(big.Int), contrib: map[string]*big.Int{}, rec: map[string]*big.Int{}, subCredit: map[string]*big.Int{}}
}

func addTo(m map[string]*big.Int, k string, v *big.Int) {
	if m[k] == nil {
		m[k] = new(big.Int)
	}
	m[k].Add(m[k], v)
}

type c11Env struct {
	vp, cp   sdk.Dec // validators / community participation fractions
	allComm  bool    // community tax 100%
	specs    map[string]spectypes.Spec
	hasMeta  map[string]bool
	denom    string
	subFound map[string]bool
}

func decMulTrunc(d sdk.Dec, x *big.Int) *big.Int {
	return d.MulInt(sdk.NewIntFromBigInt(x)).TruncateInt().BigInt()
}

// addPayout adds the movements of one payout with effective month reward E to ex.
func (env *c11Env) addPayout(ex *c11Expect, p pendingPayout, entries []cuKey, cus []*big.Int, total *big.Int, E *big.Int) (zeroContribCut bool) {
	for i, k := range entries {
		T := mulDivFloor(E, cus[i], total) // the provider's share of the statement
		ex.out.Add(ex.out, T)
		var v, cm *big.Int
		if env.allComm {
			v, cm = new(big.Int), new(big.Int).Set(T)
		} else {
			v, cm = decMulTrunc(env.vp, T), decMulTrunc(env.cp, T)
		}
		ex.val.Add(ex.val, v)
		ex.comm.Add(ex.comm, cm)
		R := new(big.Int).Sub(T, v)
		R.Sub(R, cm)
		if !env.hasMeta[k.Prov] {
			// provider left the chain: its part stays in the subscription module account
			ex.out.Sub(ex.out, R)
			ex.notes = append(ex.notes, fmt.Sprintf("provider %s has no metadata: %s stays in the module", short(k.Prov), R))
			continue
		}
		sp := env.specs[k.Chain]
		contribTotal := new(big.Int)
		if n := int64(len(sp.Contributor)); n > 0 && sp.ContributorPercentage != nil && sp.ContributorPercentage.IsPositive() {
			f := sp.ContributorPercentage.MulInt64(spectypes.ContributorPrecision).RoundInt().BigInt()
			x := mulDivFloor(R, f, big.NewInt(spectypes.ContributorPrecision))
			each := new(big.Int).Quo(x, big.NewInt(n))
			contribTotal.Mul(each, big.NewInt(n))
			if each.Sign() == 0 && R.Sign() > 0 {
				zeroContribCut = true // class of the known finding c11-zero-contributor-cut-drops-provider-share
			}
			for _, a := range sp.Contributor {
				addTo(ex.contrib, a, each)
			}
		}
		addTo(ex.rec, k.Prov, new(big.Int).Sub(R, contribTotal))
	}
	return zeroContribCut
}

// ---- block stepping with payout observation --------------------------------------------------------

func (s *c11State) step(rt fataler, delta time.Duration) bool {
	w := s.w
	if w.C.Halt != "" {
		return false
	}
	pend, err := pendingPayouts(w)
	if err != nil {
		rt.Fatalf("%s", ev.HarnessError("%v", err))
	}
	// CU-tracker timers tick in EndBlock: a timer with expiry <= h fires while leaving height h
	next := w.C.Height()
	var firing []pendingPayout
	for _, p := range pend {
		if p.Expiry <= next {
			firing = append(firing, p)
		}
	}
	if len(firing) == 0 || s.dead {
		return w.C.AdvanceBlock(delta)
	}
	// a payout block always uses the default block time, so that month timers rarely share it
	delta = 0
	ks := w.C.TS.Keepers
	ctx := w.C.TS.Ctx
	blockTime := ks.Downtime.GetParams(ctx).DowntimeDuration
	nextTime := uint64(ctx.BlockTime().Add(blockTime).UTC().Unix())
	mixed := false
	for _, e := range ks.Subscription.ExportSubscriptionsTimers(ctx).TimeEntries {
		if e.Value <= nextTime {
			mixed = true
		}
	}
	if ks.Rewards.TimeToNextTimerExpiry(ctx) <= 0 { // the pools refill (EndBlock timer) is due in this EndBlock
		mixed = true
	}

	subsSet := map[string]bool{}
	for _, p := range firing {
		subsSet[p.Sub] = true
	}
	subs := chain.SortedKeys(subsSet)
	pre := s.snapshot(subs, next)
	logPos := errLog.Len()

	// environment of the payouts (state before the block)
	env := &c11Env{specs: map[string]spectypes.Spec{}, hasMeta: map[string]bool{}, denom: w.C.Denom(), subFound: pre.subFound}
	tax := ks.Distribution.GetParams(ctx).CommunityTax
	vpp := ks.Rewards.GetParams(ctx).ValidatorsSubscriptionParticipation
	if tax.Equal(sdk.OneDec()) {
		env.allComm = true
	} else {
		env.vp = vpp.Quo(sdk.OneDec().Sub(tax))
		env.cp = tax.Add(vpp).Sub(env.vp)
	}
	for _, sp := range w.Specs {
		cur, found := ks.Spec.GetSpec(ctx, sp.Index)
		if found {
			env.specs[sp.Index] = cur
		}
	}
	for _, p := range w.Providers {
		_, err := ks.Epochstorage.GetMetadata(ctx, p.Addr())
		env.hasMeta[p.Addr()] = err == nil
	}

	// expected movements; a payout whose credit lies strictly between 100*CU and 101*CU has two
	// admissible readings of "capped at the per-CU limit" (see assumptions)
	type payoutPlan struct {
		p       pendingPayout
		entries []cuKey
		cus     []*big.Int
		total   *big.Int
		alts    []*big.Int
	}
	var plans []payoutPlan
	tainted := false
	base := newExpect()
	creditSum := new(big.Int)
	var desc []string
	for _, p := range firing {
		K := p.Credit.Amount.BigInt()
		creditSum.Add(creditSum, K)
		var entries []cuKey
		for k, cu := range s.model {
			if k.Sub == p.Sub && k.Block == p.Block && cu.Sign() > 0 {
				entries = append(entries, k)
			}
		}
		sort.Slice(entries, func(i, j int) bool {
			if entries[i].Prov != entries[j].Prov {
				return entries[i].Prov < entries[j].Prov
			}
			return entries[i].Chain < entries[j].Chain
		})
		total := new(big.Int)
		var cus []*big.Int
		for _, k := range entries {
			cus = append(cus, s.model[k])
			total.Add(total, s.model[k])
		}
		d := fmt.Sprintf("payout{sub %s block %d credit %s cu:", short(p.Sub), p.Block, K)
		for i, k := range entries {
			d += fmt.Sprintf(" %s/%s=%s", short(k.Prov), k.Chain, cus[i])
		}
		desc = append(desc, d+"}")
		if total.BitLen() > 64 && s.excluded(findingCuSumWraps) {
			// known finding: the 64-bit sum of the tracked CU wraps; this block is not checked
			s.c.Exclude(findingCuSumWraps)
			tainted = true
		}
		if total.Sign() == 0 {
			// no tracked CU: the credit returns to the subscription, or to the validators if it is gone
			if pre.subFound[p.Sub] {
				addTo(base.subCredit, p.Sub, K)
				s.class("payout:no-cu-credit-returned-to-sub")
			} else {
				base.out.Add(base.out, K)
				base.val.Add(base.val, K)
				s.class("payout:no-cu-sub-gone-credit-to-validators")
			}
			continue
		}
		capStrict := new(big.Int).Mul(total, big.NewInt(perCuLimit))
		strict := new(big.Int).Set(K)
		if strict.Cmp(capStrict) > 0 {
			strict = capStrict
		}
		lenient := new(big.Int).Set(K)
		if new(big.Int).Quo(K, total).Cmp(big.NewInt(perCuLimit)) > 0 {
			lenient = capStrict
		}
		alts := []*big.Int{strict}
		if lenient.Cmp(strict) != 0 {
			alts = append(alts, lenient)
			s.class("payout:credit-between-100x-and-101x-cu")
		}
		if strict.Cmp(K) < 0 {
			s.class("payout:capped-by-per-cu-limit")
		} else {
			s.class("payout:uncapped")
		}
		plans = append(plans, payoutPlan{p: p, entries: entries, cus: cus, total: total, alts: alts})
		// evidence
		uneq := false
		for i := 1; i < len(cus); i++ {
			if cus[i].Cmp(cus[0]) != 0 {
				uneq = true
			}
		}
		provs, chains := map[string]bool{}, map[string]bool{}
		for _, k := range entries {
			provs[k.Prov], chains[k.Chain] = true, true
		}
		s.class(fmt.Sprintf("payout:providers=%d", len(provs)))
		s.class(fmt.Sprintf("payout:chains=%d", len(chains)))
		if total.BitLen() > 62 {
			s.class("payout:total-cu>=2^62")
		}
		if total.BitLen() > 64 {
			s.class("payout:total-cu>=2^64")
		}
		if len(entries) >= 2 && uneq {
			s.payoutsNT++
			s.class("payout:unequal-cu")
		}
		if h, ok := s.upgradeAt[p.Sub]; ok && h > 0 {
			s.class("payout:after-plan-change")
		}
		if !pre.subFound[p.Sub] {
			s.class("payout:sub-expired-before-payout")
		}
	}
	if len(firing) > 1 {
		s.class("payout:several-timers-in-one-block")
	}

	if !w.C.AdvanceBlock(delta) {
		return false
	}
	post := s.snapshot(subs, next)
	s.payoutsSeen += len(firing)
	s.fpParts = append(s.fpParts, desc...)
	w.C.Logf("observed %s", strings.Join(desc, " "))

	// the tracked CU of the paid (sub, block) pairs is consumed
	for _, p := range firing {
		for k := range s.model {
			if k.Sub == p.Sub && k.Block == p.Block {
				delete(s.model, k)
			}
		}
	}

	out := pre.subMod.Sub(post.subMod).BigInt()
	s.c.Clause("outflow<=month-credit")
	if tainted {
		s.dead = true // the module account may now be drained: later payouts of this case are not judged
		s.class("not-judged-after-wrapped-payout(known finding)")
		return true // known finding c11-cu-sum-wraps: shares computed from the wrapped sum can exceed the credit
	}
	if mixed {
		s.class("payout:shares-block-with-month-timer(bound-only)")
		// auto-renewal payments may enter the module in this block: only the bound is meaningful
		if out.Cmp(creditSum) > 0 {
			s.violation(rt, "payout block %d: %s left the subscription module account, the credit of the fired payouts is %s; %s", next, out, creditSum, strings.Join(desc, " "))
		}
		return true
	}
	if out.Cmp(creditSum) > 0 {
		s.violation(rt, "payout block %d: %s left the subscription module account, the credit of the fired payouts is %s; %s", next, out, creditSum, strings.Join(desc, " "))
	}

	// enumerate the admissible readings of the cap (almost always exactly one)
	combos := 1
	for _, pl := range plans {
		combos *= len(pl.alts)
	}
	if combos > 64 {
		combos = 64
	}
	var firstDiff string
	for ci := 0; ci < combos; ci++ {
		ex := newExpect()
		zeroCut := false
		ex.out.Set(base.out)
		ex.val.Set(base.val)
		for k, v := range base.subCredit {
			addTo(ex.subCredit, k, v)
		}
		x := ci
		for _, pl := range plans {
			E := pl.alts[x%len(pl.alts)]
			x /= len(pl.alts)
			if env.addPayout(ex, pl.p, pl.entries, pl.cus, pl.total, E) {
				zeroCut = true
			}
		}
		if zeroCut {
			s.class("payout:contributor-cut-rounds-to-zero")
			if s.excluded(findingZeroContrib) {
				// known finding: such a provider share is not paid at all; only the bound was checked
				s.c.Exclude(findingZeroContrib)
				return true
			}
		}
		diff := s.compare(pre, post, ex, out)
		if diff == "" {
			s.c.Clause("provider-share==floor(min(credit,100*sumCU)*cu/sumCU)")
			s.c.Clause("participation+contributors+recorded-rewards-match-share")
			s.c.Clause("zero-cu-credit-returned")
			return true
		}
		if firstDiff == "" {
			firstDiff = diff
		}
	}
	s.violation(rt, "payout block %d: token movements differ from the law of the statement: %s; %s\nerror log of the block: %s", next, firstDiff, strings.Join(desc, " "), strings.Join(errLog.Since(logPos), " | "))
	return false
}

func (s *c11State) compare(pre, post c11Snap, ex *c11Expect, out *big.Int) string {
	var diffs []string
	cmp := func(what string, got sdk.Int, want *big.Int) {
		if got.BigInt().Cmp(want) != 0 {
			diffs = append(diffs, fmt.Sprintf("%s: observed %s, expected %s", what, got, want))
		}
	}
	cmp("outflow of the subscription module (sum of provider shares)", sdk.NewIntFromBigInt(out), ex.out)
	cmp("validators participation (distribution+leftover pool+fee collector)", post.val.Sub(pre.val), ex.val)
	cmp("community pool", post.comm.Sub(pre.comm), ex.comm)
	for _, a := range chain.SortedKeys(pre.contrib) {
		want := ex.contrib[a]
		if want == nil {
			want = new(big.Int)
		}
		cmp("contributor "+short(a), post.contrib[a].Sub(pre.contrib[a]), want)
	}
	provs := map[string]bool{}
	for p := range pre.rec {
		provs[p] = true
	}
	for p := range post.rec {
		provs[p] = true
	}
	for p := range ex.rec {
		provs[p] = true
	}
	for _, p := range chain.SortedKeys(provs) {
		a, b := pre.rec[p], post.rec[p]
		if a.IsNil() {
			a = sdk.ZeroInt()
		}
		if b.IsNil() {
			b = sdk.ZeroInt()
		}
		want := ex.rec[p]
		if want == nil {
			want = new(big.Int)
		}
		cmp("rewards recorded for provider "+short(p)+" and its delegators", b.Sub(a), want)
	}
	for _, sub := range chain.SortedKeys(pre.subCredit) {
		want := ex.subCredit[sub]
		if want == nil {
			want = new(big.Int)
		}
		if pre.subFound[sub] && post.subFound[sub] {
			cmp("credit of subscription "+short(sub), post.subCredit[sub].Sub(pre.subCredit[sub]), want)
		}
	}
	if len(ex.notes) > 0 && len(diffs) > 0 {
		diffs = append(diffs, ex.notes...)
	}
	return strings.Join(diffs, "; ")
}

// ---- actions ------------------------------------------------------------------------------------------

// entryBlockAt returns the fixation block of the subscription version that a relay claiming
// block `at` is charged to.
func (s *c11State) entryBlockAt(consumer string, at uint64) (uint64, bool) {
	_, b, found := s.w.C.TS.Keepers.Subscription.GetSubscriptionForBlock(s.w.C.TS.Ctx, consumer, at)
	return b, found
}

func (s *c11State) trackedCu(k cuKey) *big.Int {
	cu, found, _ := s.w.C.TS.Keepers.Subscription.GetTrackedCu(s.w.C.TS.Ctx, k.Sub, k.Prov, k.Chain, k.Block)
	if !found {
		return new(big.Int)
	}
	return u64(cu)
}

// lateRelayClass: the relay would create the tracked-CU entry of a past subscription month for
// (sub, provider, chain) although an entry of a newer month already exists (class of the known
// finding c11-late-relay-entry-marked-latest).
func (s *c11State) lateRelayClass(k cuKey) bool {
	ks := s.w.C.TS.Keepers
	ctx := s.w.C.TS.Ctx
	if _, found, _ := ks.Subscription.GetTrackedCu(ctx, k.Sub, k.Prov, k.Chain, k.Block); found {
		return false
	}
	// newest subscription version (possibly a future one): any tracked entry above k.Block?
	latest, found := latestSub(s.w, k.Sub)
	if !found || latest.Block <= k.Block {
		if cur, b, f := ks.Subscription.GetSubscriptionForBlock(ctx, k.Sub, s.w.C.Height()); !f || b <= k.Block {
			_ = cur
			return false
		}
	}
	for o := range s.model {
		if o.Sub == k.Sub && o.Prov == k.Prov && o.Chain == k.Chain && o.Block > k.Block {
			return true
		}
	}
	return false
}

func (s *c11State) actRelay(rt *rapid.T) {
	w := s.w
	r, ok := w.GenRelay(rt, chain.RelayOpts{CuChoices: []uint64{1, 1, 7, 1000, 1000, 1_000_000_000}, PastEpochs: true})
	if !ok {
		rt.Skip("no live consumer")
	}
	relays := []chain.RelaySpec{r}
	if rapid.IntRange(0, 3).Draw(rt, "second") == 0 {
		if r2, ok := w.GenRelay(rt, chain.RelayOpts{CuChoices: []uint64{1, 10, 1000, 50_000}, PastEpochs: true}); ok {
			r2.Prov = r.Prov
			relays = append(relays, r2)
		}
	}
	keys := map[cuKey]*big.Int{}
	for _, x := range relays {
		b, found := s.entryBlockAt(x.Cons.Addr(), uint64(x.Epoch))
		if !found {
			continue
		}
		k := cuKey{Sub: x.Cons.Addr(), Block: b, Prov: x.Prov.Addr(), Chain: x.Chain}
		keys[k] = s.trackedCu(k)
		late := s.lateRelayClass(k)
		for o := range keys { // an earlier relay of the same message creates the newer entry
			if o.Sub == k.Sub && o.Prov == k.Prov && o.Chain == k.Chain && o.Block > k.Block && keys[k].Sign() == 0 {
				if _, found, _ := w.C.TS.Keepers.Subscription.GetTrackedCu(w.C.TS.Ctx, k.Sub, k.Prov, k.Chain, k.Block); !found {
					late = true
				}
			}
		}
		if late {
			s.class("relay:first-relay-of-past-month-after-relay-of-newer-month")
			if s.excluded(findingLateRelay) {
				s.c.Exclude(findingLateRelay)
				rt.Skip("known finding: late relay would create a past-month CU entry after a newer one exists")
			}
		}
	}
	if _, err := w.SendRelays(r.Prov, relays); err != nil {
		if strings.Contains(err.Error(), "VERIF-HARNESS-ERROR") {
			rt.Fatalf("%s", err.Error())
		}
		return
	}
	for k := range keys {
		// the model mirrors the TrackedCu entry as it is after the accepted payment (the CU credited
		// for a relay is C04's subject; an entry is not expected to shrink, but if the credited CU
		// wraps the 64-bit entry the payout law still refers to the stored value)
		now := s.trackedCu(k)
		if now.Sign() > 0 {
			s.model[k] = now
		} else {
			delete(s.model, k)
		}
	}
}

// actRelayBurst: every provider paired with one consumer on one chain is paid one relay with its
// own CU (1-6 providers with unequal CU in one month).
func (s *c11State) actRelayBurst(rt *rapid.T) {
	w := s.w
	cons := w.LiveConsumers()
	if len(cons) == 0 {
		rt.Skip("no live consumer")
	}
	c := pick(rt, "consumer", cons)
	chainID := pick(rt, "chain", w.Specs).Index
	paired := w.PairedProviders(chainID, c.Addr())
	if len(paired) == 0 {
		rt.Skip("no pairing")
	}
	epoch := w.C.EpochStart()
	b, found := s.entryBlockAt(c.Addr(), epoch)
	if !found {
		rt.Skip("no subscription version")
	}
	for i, p := range paired {
		choices := []uint64{1, 2, 3, 10, 999, 1000, 50_000, 1_000_000_000, 1 << 62, 1<<63 + 12345}
		if s.excluded(findingCuSumWraps) {
			// known finding: CU sums >= 2^64 wrap; relays of 2^62.. CU (valid for the unlimited plan) are left out
			choices = choices[:8]
		}
		cu := pick(rt, fmt.Sprintf("cu%d", i), choices)
		if cu >= 1<<62 {
			s.hugeInjected++
		}
		r := chain.RelaySpec{Cons: c, Signer: c.Acc, Prov: p, Chain: chainID, Epoch: int64(epoch), Session: w.NextSess, CuSum: cu}
		w.NextSess++
		if _, err := w.SendRelays(p, []chain.RelaySpec{r}); err != nil {
			continue
		}
		k := cuKey{Sub: c.Addr(), Block: b, Prov: p.Addr(), Chain: chainID}
		if now := s.trackedCu(k); now.Sign() > 0 {
			s.model[k] = now
		}
	}
}

func (s *c11State) actBuy(rt *rapid.T) {
	w := s.w
	c := pick(rt, "consumer", w.Consumers)
	plan := pick(rt, "plan", w.Plans)
	months := rapid.SampledFrom([]int{1, 1, 2, 3}).Draw(rt, "months")
	adv := rapid.IntRange(0, 4).Draw(rt, "advance") == 0
	auto := rapid.IntRange(0, 3).Draw(rt, "autoRenew") == 0
	before, _ := latestSub(w, c.Addr())
	msg := &subscriptiontypes.MsgBuy{Creator: c.Addr(), Consumer: c.Addr(), Index: plan.Index, Duration: uint64(months), AutoRenewal: auto, AdvancePurchase: adv}
	err := w.C.Tx(fmt.Sprintf("subBuy(%s,%s,%dm,auto=%v,adv=%v)", c.Name, plan.Index, months, auto, adv), msg.ValidateBasic, func() error {
		_, err := w.C.TS.Servers.SubscriptionServer.Buy(w.C.TS.GoCtx, msg)
		return err
	})
	if err == nil && !adv && before.PlanIndex != "" && before.PlanIndex != plan.Index {
		s.upgradeAt[c.Addr()] = w.C.Height()
		s.class("plan-change(upgrade)")
	}
}

func (s *c11State) actAdvanceEpoch(rt *rapid.T) {
	w := s.w
	n := rapid.SampledFrom([]int{1, 1, 2}).Draw(rt, "epochs")
	w.C.Logf("advanceEpochs(%d)", n)
	for i := 0; i < n; i++ {
		s.toNextEpoch(rt)
	}
}

func (s *c11State) toNextEpoch(rt fataler) {
	w := s.w
	next, err := w.C.TS.Keepers.Epochstorage.GetNextEpoch(w.C.TS.Ctx, w.C.EpochStart())
	if err != nil {
		return
	}
	for w.C.Height() < next {
		if !s.step(rt, 0) {
			return
		}
	}
}

func (s *c11State) actAdvanceMonth(rt *rapid.T) {
	w := s.w
	days := rapid.SampledFrom([]int{28, 30, 31, 32}).Draw(rt, "days")
	w.C.Logf("advanceMonth(%dd)", days)
	for i := 0; i < days; i++ {
		if !s.step(rt, 24*time.Hour) {
			return
		}
	}
	s.toNextEpoch(rt)
}

func (s *c11State) actAdvanceToPayout(rt *rapid.T) {
	w := s.w
	pend, err := pendingPayouts(w)
	if err != nil {
		rt.Fatalf("%s", ev.HarnessError("%v", err))
	}
	if len(pend) == 0 {
		rt.Skip("no pending payout")
	}
	target := pend[0].Expiry + 1
	if rapid.Bool().Draw(rt, "stopShort") && target > w.C.Height()+30 {
		target -= uint64(rapid.IntRange(1, 25).Draw(rt, "short")) // leave room for late relays / upgrades
	}
	w.C.Logf("advanceToPayout(height %d)", target)
	for i := 0; w.C.Height() < target && i < 400; i++ {
		if !s.step(rt, 0) {
			return
		}
	}
}

func (s *c11State) actAdvanceHours(rt *rapid.T) {
	hours := rapid.SampledFrom([]int{1, 12, 24, 24 * 5, 24 * 12}).Draw(rt, "hours")
	s.w.C.Logf("advanceTime(%dh)", hours)
	if s.step(rt, time.Duration(hours)*time.Hour) {
		s.toNextEpoch(rt)
	}
}

// ---- the property -----------------------------------------------------------------------------------

func c11Setup(rt *rapid.T, t *testing.T, c *ev.Collector) *c11State {
	w := chain.NewWorld(rt, t, chain.Cfg{RichSpec: false, Contrib: true, Specs: [2]int{1, 2}, Providers: [2]int{2, 6}, Consumers: [2]int{1, 2}, Plans: [2]int{1, 2}, Delegators: [2]int{0, 2}})
	s := &c11State{w: w, c: c, model: map[cuKey]*big.Int{}, classes: map[string]bool{}, upgradeAt: map[string]uint64{}, monthEndAt: map[string]uint64{}}
	ts := w.C.TS
	// plans with large CU limits (valid under ValidatePlan) and small or large prices
	prices := []int64{1, 100, 7777, 1_000_000, 2_000_000_000}
	lo := rapid.IntRange(0, len(prices)-1).Draw(rt, "bigPlanPrice")
	hi := rapid.IntRange(lo, len(prices)-1).Draw(rt, "hugePlanPrice")
	mk := func(index string, price int64, total uint64) planstypes.Plan {
		return planstypes.Plan{Index: index, Description: "large CU", Type: "rpc", Price: sdk.NewCoin(w.C.Denom(), sdk.NewInt(price)),
			PlanPolicy: planstypes.Policy{TotalCuLimit: total, EpochCuLimit: total, MaxProvidersToPair: uint64(rapid.IntRange(2, 8).Draw(rt, index+"_maxProviders")), GeolocationProfile: 1},
			ProjectsLimit: 5, AnnualDiscountPercentage: 0}
	}
	big1 := mk("big", prices[lo], 1_000_000_000_000)
	huge := mk("huge", prices[hi], hugePlanTotalLimit)
	for _, p := range []planstypes.Plan{big1, huge} {
		p := p
		if err := w.C.Tx("planAdd("+p.Index+")", p.ValidatePlan, func() error { return ts.TxProposalAddPlans(p) }); err != nil {
			rt.Fatalf("%s", ev.HarnessError("cannot add plan %s: %v", p.Index, err))
		}
		w.Plans = append(w.Plans, p)
	}
	n := rapid.IntRange(1, 2).Draw(rt, "bigConsumers")
	for i := 0; i < n; i++ {
		acc := w.NewAccount(w.Cfg.Balance)
		cons := &chain.Cons{Name: fmt.Sprintf("bigcons%d", i), Acc: acc, Devs: []sigs.Account{acc}}
		w.Consumers = append(w.Consumers, cons)
		plan := pick(rt, fmt.Sprintf("bigcons%d_plan", i), []string{"big", "huge"})
		months := rapid.IntRange(1, 3).Draw(rt, fmt.Sprintf("bigcons%d_months", i))
		auto := rapid.IntRange(0, 3).Draw(rt, fmt.Sprintf("bigcons%d_auto", i)) == 0
		msg := &subscriptiontypes.MsgBuy{Creator: cons.Addr(), Consumer: cons.Addr(), Index: plan, Duration: uint64(months), AutoRenewal: auto}
		if err := w.C.Tx(fmt.Sprintf("subBuy(%s,%s,%dm,auto=%v)", cons.Name, plan, months, auto), msg.ValidateBasic, func() error {
			_, err := ts.Servers.SubscriptionServer.Buy(ts.GoCtx, msg)
			return err
		}); err != nil {
			rt.Fatalf("%s", ev.HarnessError("initial buy of plan %s failed: %v", plan, err))
		}
	}
	// optionally other participation parameters
	switch rapid.IntRange(0, 3).Draw(rt, "participation") {
	case 1:
		dp := ts.Keepers.Distribution.GetParams(ts.Ctx)
		dp.CommunityTax = sdk.NewDecWithPrec(int64(rapid.SampledFrom([]int{0, 5, 33}).Draw(rt, "communityTaxPct")), 2)
		_ = ts.Keepers.Distribution.SetParams(ts.Ctx, dp)
	case 2:
		rp := ts.Keepers.Rewards.GetParams(ts.Ctx)
		rp.ValidatorsSubscriptionParticipation = sdk.NewDecWithPrec(int64(rapid.SampledFrom([]int{0, 1, 20}).Draw(rt, "validatorsParticipationPct")), 2)
		ts.Keepers.Rewards.SetParams(ts.Ctx, rp)
	}
	s.toNextEpoch(rt)
	return s
}

func TestC11(t *testing.T) {
	c := ev.For("C11")
	c.SetRule("rapid state machine on a generated world (1-2 chains, 2-6 providers, contributors, delegators) with two extra plans of large CU limits (10^12 and 2^64-1) and prices 1..2*10^9: relay payments with CU in {1,7,10^3,10^9} also for past epochs inside the payment window, relay bursts over all paired providers with CU up to 2^63+12345 (admissible for the plan with limit 2^64-1), buys/extensions/upgrades/advance purchases/auto-renewal, epoch/hour/month progression and advances to (or shortly before) the next payout block; every block in which a CU-tracker timer fires is observed; non-trivial = a payout with >=2 (provider,chain) entries of unequal CU; distinct = distinct sequences of observed payouts")
	c.Assume("tracked CU of the model = increments of the TrackedCu entries observed at accepted relay payments (entry of the subscription version the relay's epoch belongs to); all tracked CU comes from signed relay payments (a plan with TotalCuLimit = EpochCuLimit = 2^64-1 passes ValidatePlan, relays of 2^62..2^63 CU are accepted for it)",
		"'capped at the per-CU limit': effective month reward E = min(credit, 100*sumCU); for 100*sumCU < credit < 101*sumCU the reading 'credit/sumCU rounded down <= 100, so uncapped' is accepted as well",
		"split of a provider's share: validators/community participation = floor(fraction*share) with the fractions derived from the community tax and the validators_subscription_participation parameter; contributors = floor(rest*pct) rounded down to a multiple of their number; the remainder is recorded for the provider and its delegators (sum over delegators is compared, not the split)",
		"a provider without metadata (left all chains) receives nothing and its part stays in the module account (documented behaviour); providers are not unstaked by this generator",
		"payout blocks use the default block time; if a subscription month timer or the pools refill is due in the same block only the bound 'outflow <= credit' is checked",
		"validators participation is observed on distribution pool + leftover pool + fee collector (which pool is C21)")
	rapid.Check(t, func(rt *rapid.T) {
		errLog.Reset()
		s := c11Setup(rt, t, c)
		w := s.w
		acts := map[string]func(*rapid.T){
			"relay":           s.actRelay,
			"relay2":          s.actRelay,
			"relay3":          s.actRelay,
			"relay4":          s.actRelay,
			"relay5":          s.actRelay,
			"relayBurst":      s.actRelayBurst,
			"relayBurst2":     s.actRelayBurst,
			"buy":             s.actBuy,
			"buy2":            s.actBuy,
			"dualDelegate":    w.ActDualDelegate,
			"advanceEpoch":    s.actAdvanceEpoch,
			"advanceMonth":    s.actAdvanceMonth,
			"advanceMonth2":   s.actAdvanceMonth,
			"advanceHours":    s.actAdvanceHours,
			"advanceToPayout": s.actAdvanceToPayout,
			"advanceToPayou2": s.actAdvanceToPayout,
			"": func(rt *rapid.T) {
				if w.C.Halt != "" {
					rt.Skip("chain halted (reported by C37)")
				}
			},
		}
		rt.Repeat(acts)
		// drain: let the pending payouts of the history fire
		for i := 0; i < 3 && w.C.Halt == ""; i++ {
			pend, _ := pendingPayouts(w)
			if len(pend) == 0 {
				break
			}
			for j := 0; w.C.Height() <= pend[len(pend)-1].Expiry && j < 400; j++ {
				if !s.step(rt, 0) {
					break
				}
			}
		}
		nt := s.payoutsNT > 0 && w.C.Halt == "" && !s.dead
		if s.payoutsSeen > 0 {
			s.class("payout-observed")
		}
		if s.hugeInjected > 0 {
			s.class("relay-with-cu>=2^62-sent")
		}
		if w.C.Halt != "" {
			s.class("halted")
		}
		c.AddExtra("payouts_observed", s.payoutsSeen)
		c.Case(nt, strings.Join(s.fpParts, "|"), chain.SortedKeys(s.classes)...)
		if nt {
			c.Sample(map[string]any{"payouts": s.fpParts, "history_tail": w.C.HistTail(15)})
		}
	})
}
