package cmoney

import (
	"fmt"
	"os"
	"math/big"
	"sort"
	"strings"
	"testing"
	"time"

	sdk "github.com/cosmos/cosmos-sdk/types"
	authtypes "github.com/cosmos/cosmos-sdk/x/auth/types"
	govtypes "github.com/cosmos/cosmos-sdk/x/gov/types"
	testkeeper "github.com/lavanet/lava/v5/testutil/keeper"
	rewardstypes "github.com/lavanet/lava/v5/x/rewards/types"
	spectypes "github.com/lavanet/lava/v5/x/spec/types"
	"pgregory.net/rapid"

	"verifharness/internal/chain"
	"verifharness/internal/ev"
)

// C42: IPRPC funds reach the providers that served IPRPC traffic.
//
// A ledger model records every accepted funding (per month id and spec) and the CU that each
// provider served to IPRPC-eligible subscriptions in the current month. At every month boundary
// (pools refill) the token movements of that block are compared with the law of the statement;
// after every transaction and block the stored IPRPC months must equal the ledger and the IPRPC
// pool must hold exactly the outstanding funds.

const findingIprpcZeroContrib = "c42-zero-contributor-cut-strands-iprpc-reward"

type c42State struct {
	w       *chain.World
	c       *ev.Collector
	witness bool
	dead    bool // the C04 precondition broke: nothing is judged any more

	eligible map[string]bool                // union of all accepted IPRPC subscription lists
	minCost  *big.Int                       // last accepted min cost
	curID    uint64                         // id of the current IPRPC month
	funds    map[uint64]map[string]*big.Int // month id -> spec -> fund (bond denom)
	cu       map[string]map[string]*big.Int // spec -> provider -> IPRPC CU of the current month
	stranded *big.Int                       // funds stuck in the pool by the known finding (only when excluded)

	// evidence
	boundaries    int
	ntBoundaries  int
	classes       map[string]bool
	fp            []string
	fundedTotal   *big.Int
	paidProviders *big.Int
}

func (s *c42State) class(n string) { s.classes[n] = true }

func (s *c42State) excluded(f string) bool { return !s.witness && ev.Excluded(f) }

func (s *c42State) violation(rt fataler, format string, args ...any) {
	rt.Fatalf("%s", ev.Violation("C42", "%s\nhistory (tail):\n  %s", fmt.Sprintf(format, args...), histString(s.w, 45)))
}

func (s *c42State) addFund(id uint64, spec string, amt *big.Int) {
	if s.funds[id] == nil {
		s.funds[id] = map[string]*big.Int{}
	}
	if s.funds[id][spec] == nil {
		s.funds[id][spec] = new(big.Int)
	}
	s.funds[id][spec].Add(s.funds[id][spec], amt)
}

// checkLedger: stored IPRPC months == ledger, pool == outstanding funds.
func (s *c42State) checkLedger(rt fataler, where string) {
	if s.dead {
		return
	}
	w := s.w
	ks := w.C.TS.Keepers
	ctx := w.C.TS.Ctx
	denom := w.C.Denom()
	s.c.Clause("stored-months==ledger")
	state := map[uint64]map[string]*big.Int{}
	total := new(big.Int)
	for _, m := range ks.Rewards.GetAllIprpcReward(ctx) {
		for _, sf := range m.SpecFunds {
			for _, coin := range sf.Fund {
				if coin.Denom != denom {
					s.violation(rt, "%s: stored IPRPC month %d holds foreign denom %s for %s (only %s was funded)", where, m.Id, coin, sf.Spec, denom)
				}
			}
			a := sf.Fund.AmountOf(denom).BigInt()
			if state[m.Id] == nil {
				state[m.Id] = map[string]*big.Int{}
			}
			if state[m.Id][sf.Spec] != nil {
				s.violation(rt, "%s: stored IPRPC month %d lists spec %s twice", where, m.Id, sf.Spec)
			}
			state[m.Id][sf.Spec] = a
			total.Add(total, a)
		}
	}
	render := func(x map[uint64]map[string]*big.Int) string {
		var ids []uint64
		for id := range x {
			ids = append(ids, id)
		}
		sort.Slice(ids, func(i, j int) bool { return ids[i] < ids[j] })
		var parts []string
		for _, id := range ids {
			for _, sp := range chain.SortedKeys(x[id]) {
				if x[id][sp].Sign() != 0 {
					parts = append(parts, fmt.Sprintf("%d/%s=%s", id, sp, x[id][sp]))
				}
			}
		}
		return strings.Join(parts, " ")
	}
	if a, b := render(state), render(s.funds); a != b {
		s.violation(rt, "%s: stored IPRPC months differ from the ledger of fundings, distributions and roll-overs\n stored: %s\n ledger: %s (current month id %d)", where, a, b, s.curID)
	}
	if id := ks.Rewards.GetIprpcRewardsCurrentId(ctx); id != s.curID {
		s.violation(rt, "%s: current IPRPC month id is %d, the ledger counted %d month boundaries", where, id, s.curID)
	}
	s.c.Clause("iprpc-pool==outstanding-funds")
	pool := poolAmt(w, rewardstypes.IprpcPoolName).BigInt()
	want := new(big.Int).Add(total, s.stranded)
	if pool.Cmp(want) != 0 {
		s.violation(rt, "%s: IPRPC pool holds %s%s, outstanding funds of all stored months are %s (lost or double-paid: %s)", where, pool, denom, want, new(big.Int).Sub(pool, want))
	}
}

// ---- month boundary ---------------------------------------------------------------------------------

type c42Snap struct {
	pool    sdk.Int
	val     sdk.Int // validators allocation+distribution+leftover pools + fee collector
	comm    sdk.Int
	contrib map[string]sdk.Int
	rec     map[string]sdk.Int
}

func (s *c42State) snapshot() c42Snap {
	w := s.w
	denom := w.C.Denom()
	sn := c42Snap{contrib: map[string]sdk.Int{}, rec: map[string]sdk.Int{}}
	sn.pool = poolAmt(w, rewardstypes.IprpcPoolName)
	sn.val = poolAmt(w, rewardstypes.ValidatorsRewardsAllocationPoolName).Add(poolAmt(w, rewardstypes.ValidatorsRewardsDistributionPoolName)).
		Add(poolAmt(w, rewardstypes.ValidatorsRewardsLeftOverPoolName)).Add(modAmt(w, authtypes.FeeCollectorName))
	sn.comm = communityAmt(w)
	for _, sp := range w.Specs {
		for _, a := range sp.Contributor {
			acc, _ := sdk.AccAddressFromBech32(a)
			sn.contrib[a] = w.C.Balance(acc)
		}
	}
	for _, r := range w.C.TS.Keepers.Dualstaking.GetAllDelegatorReward(w.C.TS.Ctx) {
		cur, ok := sn.rec[r.Provider]
		if !ok {
			cur = sdk.ZeroInt()
		}
		sn.rec[r.Provider] = cur.Add(r.Amount.AmountOf(denom))
	}
	return sn
}

func (s *c42State) step(rt fataler, delta time.Duration) bool {
	w := s.w
	if w.C.Halt != "" {
		return false
	}
	ks := w.C.TS.Keepers
	ctx := w.C.TS.Ctx
	// the pools refill (and the monthly distribution before it) is an EndBlock timer by block time
	if s.dead || ks.Rewards.TimeToNextTimerExpiry(ctx) > 0 {
		return w.C.AdvanceBlock(delta)
	}
	// month boundary in the EndBlock of the current height
	pend, err := pendingPayouts(w)
	if err != nil {
		rt.Fatalf("%s", ev.HarnessError("%v", err))
	}
	mixed := false
	for _, p := range pend {
		if p.Expiry <= w.C.Height() {
			mixed = true // a subscription payout writes reward records in the same EndBlock
		}
	}
	pre := s.snapshot()
	logPos := errLog.Len()

	// environment (state before the block)
	tax := ks.Distribution.GetParams(ctx).CommunityTax
	vpp := ks.Rewards.GetParams(ctx).ValidatorsSubscriptionParticipation
	allComm := tax.Equal(sdk.OneDec())
	var vp, cp sdk.Dec
	if !allComm {
		vp = vpp.Quo(sdk.OneDec().Sub(tax))
		cp = tax.Add(vpp).Sub(vp)
	}
	staked := map[string]map[string]bool{}
	specs := map[string]spectypes.Spec{}
	for _, sp := range w.Specs {
		staked[sp.Index] = map[string]bool{}
		for _, p := range w.StakedOn(sp.Index) {
			staked[sp.Index][p.Addr()] = true
		}
		if cur, found := ks.Spec.GetSpec(ctx, sp.Index); found {
			specs[sp.Index] = cur
		}
	}

	// the law: month s.curID is distributed
	ex := newExpect()
	poolOut := new(big.Int)
	month := s.funds[s.curID]
	var desc []string
	served, unserved := 0, 0
	zeroCut := false
	nextFunds := map[string]*big.Int{}
	for _, sp := range chain.SortedKeys(month) {
		F := month[sp]
		if F.Sign() == 0 {
			continue
		}
		total := new(big.Int)
		var provs []string
		for _, p := range chain.SortedKeys(s.cu[sp]) {
			if s.cu[sp][p].Sign() > 0 && staked[sp][p] {
				provs = append(provs, p)
				total.Add(total, s.cu[sp][p])
			}
		}
		d := fmt.Sprintf("month %d %s fund %s cu:", s.curID, sp, F)
		for _, p := range provs {
			d += fmt.Sprintf(" %s=%s", short(p), s.cu[sp][p])
		}
		desc = append(desc, d)
		if total.Sign() == 0 {
			// nobody served the spec: the fund rolls over to the next month
			nextFunds[sp] = F
			unserved++
			continue
		}
		served++
		var v, cm *big.Int
		if allComm {
			v, cm = new(big.Int), new(big.Int).Set(F)
		} else {
			v, cm = decMulTrunc(vp, F), decMulTrunc(cp, F)
		}
		ex.val.Add(ex.val, v)
		ex.comm.Add(ex.comm, cm)
		A := new(big.Int).Sub(F, v)
		A.Sub(A, cm)
		used := new(big.Int)
		for _, p := range provs {
			T := mulDivFloor(A, s.cu[sp][p], total)
			used.Add(used, T)
			spc := specs[sp]
			contribTotal := new(big.Int)
			if n := int64(len(spc.Contributor)); n > 0 && spc.ContributorPercentage != nil && spc.ContributorPercentage.IsPositive() {
				f := spc.ContributorPercentage.MulInt64(spectypes.ContributorPrecision).RoundInt().BigInt()
				x := mulDivFloor(T, f, big.NewInt(spectypes.ContributorPrecision))
				each := new(big.Int).Quo(x, big.NewInt(n))
				contribTotal.Mul(each, big.NewInt(n))
				if each.Sign() == 0 && T.Sign() > 0 {
					zeroCut = true
				}
				for _, a := range spc.Contributor {
					addTo(ex.contrib, a, each)
				}
			}
			addTo(ex.rec, p, new(big.Int).Sub(T, contribTotal))
			s.paidProviders.Add(s.paidProviders, T)
		}
		// rounding leftovers go to the community pool
		ex.comm.Add(ex.comm, new(big.Int).Sub(A, used))
		poolOut.Add(poolOut, F)
	}

	if !w.C.AdvanceBlock(delta) {
		return false
	}
	post := s.snapshot()
	s.boundaries++
	w.C.Logf("observed month boundary: %s", strings.Join(desc, "; "))
	s.fp = append(s.fp, desc...)

	// ledger update: the month is consumed, unserved funds roll over, CU counters restart
	delete(s.funds, s.curID)
	s.curID++
	for sp, F := range nextFunds {
		s.addFund(s.curID, sp, F)
	}
	s.cu = map[string]map[string]*big.Int{}

	if served > 0 {
		s.class("boundary:spec-served")
	}
	if unserved > 0 {
		s.class("boundary:funded-spec-not-served(rolls-over)")
	}
	if served > 0 && unserved > 0 {
		s.ntBoundaries++
		s.class("boundary:served-and-unserved-spec-in-one-month")
	}
	if len(month) == 0 {
		s.class("boundary:nothing-funded")
	}
	if mixed {
		s.class("boundary:shares-block-with-subscription-payout(ledger-only)")
	}
	if zeroCut {
		s.class("boundary:contributor-cut-rounds-to-zero")
	}
	if zeroCut && s.excluded(findingIprpcZeroContrib) {
		// known finding: such a provider reward is not paid and stays in the pool; the amounts of
		// this boundary are not compared, the pool surplus is taken over as stranded
		s.c.Exclude(findingIprpcZeroContrib)
		total := new(big.Int)
		for _, m := range s.funds {
			for _, f := range m {
				total.Add(total, f)
			}
		}
		s.stranded = new(big.Int).Sub(post.pool.BigInt(), total)
		if s.stranded.Sign() < 0 {
			s.violation(rt, "month boundary at height %d: IPRPC pool holds %s, less than the outstanding funds %s; %s", w.C.Height()-1, post.pool, total, strings.Join(desc, "; "))
		}
		s.checkLedger(rt, "after the month boundary")
		return true
	}
	if !mixed {
		s.c.Clause("provider-paid==floor(fund-after-participation*cu/sumCU)")
		s.c.Clause("funded==providers+participation+rollover+leftovers")
		var diffs []string
		cmp := func(what string, got sdk.Int, want *big.Int) {
			if got.BigInt().Cmp(want) != 0 {
				diffs = append(diffs, fmt.Sprintf("%s: observed %s, expected %s", what, got, want))
			}
		}
		cmp("outflow of the IPRPC pool (funds of served specs)", pre.pool.Sub(post.pool), poolOut)
		cmp("validators participation (validators pools + fee collector)", post.val.Sub(pre.val), ex.val)
		cmp("community pool (participation + rounding leftovers)", post.comm.Sub(pre.comm), ex.comm)
		for _, a := range chain.SortedKeys(pre.contrib) {
			want := ex.contrib[a]
			if want == nil {
				want = new(big.Int)
			}
			cmp("contributor "+short(a), post.contrib[a].Sub(pre.contrib[a]), want)
		}
		provs := map[string]bool{}
		for p := range pre.rec {
			provs[p] = true
		}
		for p := range post.rec {
			provs[p] = true
		}
		for p := range ex.rec {
			provs[p] = true
		}
		for _, p := range chain.SortedKeys(provs) {
			a, b := pre.rec[p], post.rec[p]
			if a.IsNil() {
				a = sdk.ZeroInt()
			}
			if b.IsNil() {
				b = sdk.ZeroInt()
			}
			want := ex.rec[p]
			if want == nil {
				want = new(big.Int)
			}
			cmp("rewards recorded for provider "+short(p)+" and its delegators", b.Sub(a), want)
		}
		if len(diffs) > 0 {
			s.violation(rt, "month boundary at height %d: token movements differ from the law of the statement: %s\n distributed: %s\n error log of the block: %s",
				w.C.Height()-1, strings.Join(diffs, "; "), strings.Join(desc, "; "), strings.Join(errLog.Since(logPos), " | "))
		}
	}
	s.checkLedger(rt, "after the month boundary")
	return true
}

// ---- actions ------------------------------------------------------------------------------------------

func (s *c42State) actSetData(rt *rapid.T) {
	w := s.w
	ts := w.C.TS
	var subs []string
	for i, c := range w.Consumers {
		if rapid.Bool().Draw(rt, fmt.Sprintf("iprpcSub%d", i)) {
			subs = append(subs, c.Addr())
		}
	}
	cost := int64(rapid.SampledFrom([]int{0, 0, 100, 1000}).Draw(rt, "minCost"))
	s.setData(rt, subs, cost)
	_ = ts
}

func (s *c42State) setData(rt fataler, subs []string, cost int64) {
	w := s.w
	ts := w.C.TS
	authority := authtypes.NewModuleAddress(govtypes.ModuleName).String()
	msg := &rewardstypes.MsgSetIprpcData{Authority: authority, MinIprpcCost: sdk.NewCoin(w.C.Denom(), sdk.NewInt(cost)), IprpcSubscriptions: subs}
	err := w.C.Tx(fmt.Sprintf("iprpcSetData(cost=%d,subs=%d)", cost, len(subs)), msg.ValidateBasic, func() error {
		_, err := ts.Servers.RewardsServer.SetIprpcData(ts.GoCtx, msg)
		return err
	})
	if err == nil {
		for _, a := range subs {
			s.eligible[a] = true
		}
		s.minCost = big.NewInt(cost)
	}
}

func (s *c42State) actFund(rt *rapid.T) {
	w := s.w
	c := pick(rt, "funder", w.Consumers)
	spec := pick(rt, "spec", w.Specs)
	duration := uint64(rapid.IntRange(1, 4).Draw(rt, "duration"))
	amount := int64(rapid.SampledFrom([]int{1000, 1001, 5000, 99_999, 1_000_000}).Draw(rt, "fund"))
	s.fund(c, spec.Index, duration, amount)
}

func (s *c42State) fund(c *chain.Cons, spec string, duration uint64, amount int64) error {
	w := s.w
	ts := w.C.TS
	coins := sdk.NewCoins(sdk.NewCoin(w.C.Denom(), sdk.NewInt(amount)))
	msg := &rewardstypes.MsgFundIprpc{Creator: c.Addr(), Spec: spec, Duration: duration, Amounts: coins}
	err := w.C.Tx(fmt.Sprintf("iprpcFund(%s,%s,%dm,%d)", c.Name, spec, duration, amount), msg.ValidateBasic, func() error {
		_, err := ts.Servers.RewardsServer.FundIprpc(ts.GoCtx, msg)
		return err
	})
	if err == nil {
		// the fund of each of the next `duration` months is the amount minus the minimum cost
		per := new(big.Int).Sub(big.NewInt(amount), s.minCost)
		for i := uint64(1); i <= duration; i++ {
			s.addFund(s.curID+i, spec, per)
		}
		s.fundedTotal.Add(s.fundedTotal, new(big.Int).Mul(per, u64(duration)))
		s.class(fmt.Sprintf("fund:duration=%d", duration))
	}
	return err
}

// sendRelay sends relays of one provider and adds the CU credited to eligible subscriptions.
func (s *c42State) sendRelay(p *chain.Prov, relays []chain.RelaySpec) error {
	w := s.w
	ks := w.C.TS.Keepers
	before := map[cuKey]*big.Int{}
	signed := map[cuKey]*big.Int{}
	for _, x := range relays {
		_, b, found := ks.Subscription.GetSubscriptionForBlock(w.C.TS.Ctx, x.Cons.Addr(), uint64(x.Epoch))
		if !found {
			continue
		}
		k := cuKey{Sub: x.Cons.Addr(), Block: b, Prov: x.Prov.Addr(), Chain: x.Chain}
		cu, f, _ := ks.Subscription.GetTrackedCu(w.C.TS.Ctx, k.Sub, k.Prov, k.Chain, k.Block)
		if !f {
			cu = 0
		}
		before[k] = u64(cu)
		if signed[k] == nil {
			signed[k] = new(big.Int)
		}
		signed[k].Add(signed[k], u64(x.CuSum))
	}
	if _, err := w.SendRelays(p, relays); err != nil {
		return err
	}
	for k, b := range before {
		cu, f, _ := ks.Subscription.GetTrackedCu(w.C.TS.Ctx, k.Sub, k.Prov, k.Chain, k.Block)
		if !f {
			continue
		}
		d := new(big.Int).Sub(u64(cu), b)
		if d.Sign() < 0 || d.Cmp(signed[k]) > 0 {
			// precondition of this property (it is C04's statement): a relay is credited at most the CU
			// it signed. The known unsigned underflow in EnforceClientCUsUsageInEpoch credits ~2^64 CU,
			// which wraps the 64-bit CU counters; such a history is not judged from here on.
			s.dead = true
			s.class("not-judged:relay-credited-more-cu-than-signed(C04)")
			return nil
		}
		if d.Sign() == 0 {
			continue
		}
		if s.eligible[k.Sub] {
			if s.cu[k.Chain] == nil {
				s.cu[k.Chain] = map[string]*big.Int{}
			}
			if s.cu[k.Chain][k.Prov] == nil {
				s.cu[k.Chain][k.Prov] = new(big.Int)
			}
			s.cu[k.Chain][k.Prov].Add(s.cu[k.Chain][k.Prov], d)
			s.class("relay:eligible-subscription")
		} else {
			s.class("relay:regular-subscription")
		}
	}
	if os.Getenv("C42_DEBUG") != "" {
		for _, bp := range ks.Rewards.GetAllBasePay(w.C.TS.Ctx) {
			m := new(big.Int)
			if s.cu[bp.ChainId] != nil && s.cu[bp.ChainId][bp.Provider] != nil {
				m = s.cu[bp.ChainId][bp.Provider]
			}
			if m.Cmp(u64(bp.BasePay.IprpcCu)) != 0 {
				w.C.Logf("DEBUG divergence %s/%s state=%d model=%s", short(bp.Provider), bp.ChainId, bp.BasePay.IprpcCu, m)
			}
		}
	}
	return nil
}

func (s *c42State) actRelay(rt *rapid.T) {
	w := s.w
	r, ok := w.GenRelay(rt, chain.RelayOpts{CuChoices: []uint64{1, 3, 10, 100, 1000}, PastEpochs: true})
	if !ok {
		rt.Skip("no live consumer")
	}
	err := s.sendRelay(r.Prov, []chain.RelaySpec{r})
	if err != nil && strings.Contains(err.Error(), "VERIF-HARNESS-ERROR") {
		rt.Fatalf("%s", err.Error())
	}
}

func (s *c42State) actRelayBurst(rt *rapid.T) {
	w := s.w
	cons := w.LiveConsumers()
	if len(cons) == 0 {
		rt.Skip("no live consumer")
	}
	c := pick(rt, "consumer", cons)
	chainID := pick(rt, "chain", w.Specs).Index
	paired := w.PairedProviders(chainID, c.Addr())
	if len(paired) == 0 {
		rt.Skip("no pairing")
	}
	epoch := w.C.EpochStart()
	for i, p := range paired {
		cu := rapid.SampledFrom([]uint64{1, 2, 3, 10, 999, 1000}).Draw(rt, fmt.Sprintf("cu%d", i))
		r := chain.RelaySpec{Cons: c, Signer: c.Acc, Prov: p, Chain: chainID, Epoch: int64(epoch), Session: w.NextSess, CuSum: cu}
		w.NextSess++
		_ = s.sendRelay(p, []chain.RelaySpec{r})
	}
}

func (s *c42State) toNextEpoch(rt fataler) {
	w := s.w
	next, err := w.C.TS.Keepers.Epochstorage.GetNextEpoch(w.C.TS.Ctx, w.C.EpochStart())
	if err != nil {
		return
	}
	for w.C.Height() < next {
		if !s.step(rt, 0) {
			return
		}
	}
}

func (s *c42State) actAdvanceEpoch(rt *rapid.T) {
	s.w.C.Logf("advanceEpochs(1)")
	s.toNextEpoch(rt)
}

func (s *c42State) actAdvanceMonth(rt *rapid.T) {
	days := rapid.SampledFrom([]int{28, 30, 31, 32}).Draw(rt, "days")
	s.advanceDays(rt, days)
}

func (s *c42State) advanceDays(rt fataler, days int) {
	s.w.C.Logf("advanceMonth(%dd)", days)
	for i := 0; i < days; i++ {
		if !s.step(rt, 24*time.Hour) {
			return
		}
	}
	s.toNextEpoch(rt)
}

func (s *c42State) actAdvanceHours(rt *rapid.T) {
	hours := rapid.SampledFrom([]int{1, 12, 24, 24 * 5, 24 * 12}).Draw(rt, "hours")
	s.w.C.Logf("advanceTime(%dh)", hours)
	if s.step(rt, time.Duration(hours)*time.Hour) {
		s.toNextEpoch(rt)
	}
}

func newC42State(w *chain.World, c *ev.Collector) *c42State {
	s := &c42State{w: w, c: c, eligible: map[string]bool{}, minCost: new(big.Int), funds: map[uint64]map[string]*big.Int{}, cu: map[string]map[string]*big.Int{},
		stranded: new(big.Int), classes: map[string]bool{}, fundedTotal: new(big.Int), paidProviders: new(big.Int)}
	ks := w.C.TS.Keepers
	ctx := w.C.TS.Ctx
	// no provider bonus rewards and no burn: the reward records and validators pools of a month
	// boundary then move by IPRPC money only
	zero := sdk.NewCoins()
	_ = ks.BankKeeper.SetBalance(ctx, testkeeper.GetModuleAddress(string(rewardstypes.ProvidersRewardsAllocationPool)), zero)
	_ = ks.BankKeeper.SetBalance(ctx, testkeeper.GetModuleAddress(string(rewardstypes.ProviderRewardsDistributionPool)), zero)
	rp := ks.Rewards.GetParams(ctx)
	rp.LeftoverBurnRate = sdk.ZeroDec()
	ks.Rewards.SetParams(ctx, rp)
	s.curID = ks.Rewards.GetIprpcRewardsCurrentId(ctx)
	return s
}

func TestC42(t *testing.T) {
	c := ev.For("C42")
	c.SetRule("rapid state machine on a generated world (1-3 specs, some with contributors, 2-5 providers, 2-3 consumers): IPRPC data proposals (eligible subscriptions, min cost), fundings of 1-4 months on any spec, subscription buys, relay payments of eligible and regular subscriptions across specs (single relays and bursts over all paired providers), delegations, claims, epoch/hour/month progression over 2-5 month boundaries; a ledger (month id, spec -> fund; spec, provider -> eligible CU of the month) is updated from the accepted transactions; non-trivial = a month boundary at which one funded spec was served by eligible traffic and another funded spec was not; distinct = distinct sequences of observed boundaries")
	c.Assume("eligible = the subscription was listed in some accepted IPRPC data proposal before the relay (the chain only adds to the list); CU served = increment of the subscription's TrackedCu entry at the accepted relay payment",
		"presupposes C04: a relay payment is credited at most the CU it signed; a history in which the (known) unsigned underflow of EnforceClientCUsUsageInEpoch credits ~2^64 CU is not judged from that relay on",
		"providers are not unstaked or frozen in this generator (a provider that left the spec before the boundary is documented to lose its share); funds are in the bond denomination only",
		"the providers' bonus pools are emptied and the leftover burn rate is 0 at setup, so that at a month boundary reward records and validators pools move by IPRPC money only; if a subscription payout fires in the same EndBlock only the ledger/pool equalities are checked",
		"participation = floor(fraction*spec fund) with fractions from community tax and validators_subscription_participation; contributors = floor(share*pct) rounded down to a multiple of their number (module formulas); reward records are compared per provider as a sum over its delegators")
	rapid.Check(t, func(rt *rapid.T) {
		errLog.Reset()
		w := chain.NewWorld(rt, t, chain.Cfg{RichSpec: false, Contrib: true, Specs: [2]int{1, 3}, Providers: [2]int{2, 5}, Consumers: [2]int{2, 3}, Plans: [2]int{1, 2}, Delegators: [2]int{0, 2}})
		s := newC42State(w, c)
		// initial data: min cost and a first list of eligible subscriptions
		var subs []string
		for i, cons := range w.Consumers {
			if rapid.IntRange(0, 2).Draw(rt, fmt.Sprintf("initEligible%d", i)) > 0 {
				subs = append(subs, cons.Addr())
			}
		}
		s.setData(rt, subs, int64(rapid.SampledFrom([]int{0, 100}).Draw(rt, "initMinCost")))
		s.checkLedger(rt, "after setup")
		w.C.BlockHook = nil
		acts := map[string]func(*rapid.T){
			"setData":       s.actSetData,
			"fund":          s.actFund,
			"fund2":         s.actFund,
			"fund3":         s.actFund,
			"subBuy":        w.ActSubBuy,
			"autoRenew":     w.ActAutoRenew,
			"relay":         s.actRelay,
			"relay2":        s.actRelay,
			"relay3":        s.actRelay,
			"relayBurst":    s.actRelayBurst,
			"relayBurst2":   s.actRelayBurst,
			"dualDelegate":  w.ActDualDelegate,
			"claimRewards":  w.ActClaimRewards,
			"advanceEpoch":  s.actAdvanceEpoch,
			"advanceHours":  s.actAdvanceHours,
			"advanceMonth":  s.actAdvanceMonth,
			"advanceMonth2": s.actAdvanceMonth,
			"advanceMonth3": s.actAdvanceMonth,
			"": func(rt *rapid.T) {
				if w.C.Halt != "" {
					rt.Skip("chain halted (reported by C37)")
				}
				s.checkLedger(rt, "after the last transaction")
			},
		}
		rt.Repeat(acts)
		nt := s.ntBoundaries > 0 && w.C.Halt == "" && !s.dead
		s.class(fmt.Sprintf("boundaries=%d", min(s.boundaries, 6)))
		if w.C.Halt != "" {
			s.class("halted")
		}
		c.AddExtra("month_boundaries", s.boundaries)
		c.Case(nt, strings.Join(s.fp, "|"), chain.SortedKeys(s.classes)...)
		if nt {
			c.Sample(map[string]any{"boundaries": s.fp, "history_tail": w.C.HistTail(15)})
		}
	})
}
