package cmoney

import (
	"fmt"
	"math/big"
	"testing"
	"time"

	"cosmossdk.io/math"
	sdk "github.com/cosmos/cosmos-sdk/types"
	"github.com/lavanet/lava/v5/testutil/common"
	"github.com/lavanet/lava/v5/utils/sigs"
	epochstoragetypes "github.com/lavanet/lava/v5/x/epochstorage/types"
	planstypes "github.com/lavanet/lava/v5/x/plans/types"
	subscriptiontypes "github.com/lavanet/lava/v5/x/subscription/types"

	"verifharness/internal/chain"
	"verifharness/internal/ev"
)

// handWorld builds a small deterministic world without rapid: one spec (optionally with one
// contributor), one validator, nProv providers (vault = provider) staked on the spec, one plan
// and one consumer subscribed to it for `months` months.
func handWorld(t *testing.T, contribPct int64, price int64, months int, totalCU uint64, nProv int) (*chain.World, *chain.Cons) {
	c := chain.New(t, 7)
	ts := c.TS
	c.AdvanceBlock(0)
	const bal = int64(10_000_000_000)
	w := &chain.World{C: c, Keys: map[string]sigs.Account{}, NextSess: 1}
	w.Cfg.Balance = bal
	spec := chain.MakeSpec("SP0", false, 1000, c.Denom())
	if contribPct > 0 {
		acc := w.NewAccount(0)
		spec.Contributor = []string{acc.Addr.String()}
		pct := math.LegacyNewDecWithPrec(contribPct, 2)
		spec.ContributorPercentage = &pct
	}
	ts.AddSpec(spec.Index, spec)
	w.Specs = append(w.Specs, spec)
	val, _ := ts.AddAccount(common.VALIDATOR, 0, bal)
	w.Keys[val.Addr.String()] = val
	ts.TxCreateValidator(val, math.NewInt(bal/10))
	w.Validators = append(w.Validators, val)
	for i := 0; i < nProv; i++ {
		acc := w.NewAccount(bal)
		self := acc
		acc.Vault = &self
		w.Keys[acc.Addr.String()] = acc
		w.Providers = append(w.Providers, &chain.Prov{Name: fmt.Sprintf("prov%d", i), Acc: acc})
	}
	plan := planstypes.Plan{Index: "p", Description: "witness", Type: "rpc", Price: sdk.NewCoin(c.Denom(), sdk.NewInt(price)),
		PlanPolicy: planstypes.Policy{TotalCuLimit: totalCU, EpochCuLimit: totalCU, MaxProvidersToPair: 4, GeolocationProfile: 1}, ProjectsLimit: 5}
	if err := ts.TxProposalAddPlans(plan); err != nil {
		t.Fatalf("%s", ev.HarnessError("add plan: %v", err))
	}
	w.Plans = append(w.Plans, plan)
	c.AdvanceEpoch()
	for _, p := range w.Providers {
		eps := []epochstoragetypes.Endpoint{{IPPORT: "10.0.0.1:443", Geolocation: 1, ApiInterfaces: []string{chain.IfJSON}}}
		if err := w.StakeProvider(p, "SP0", 100_000, 1, eps, 0, val); err != nil {
			t.Fatalf("%s", ev.HarnessError("stake: %v", err))
		}
	}
	acc := w.NewAccount(bal)
	cons := &chain.Cons{Name: "cons0", Acc: acc, Devs: []sigs.Account{acc}}
	w.Consumers = append(w.Consumers, cons)
	msg := &subscriptiontypes.MsgBuy{Creator: cons.Addr(), Consumer: cons.Addr(), Index: "p", Duration: uint64(months)}
	if err := c.Tx("subBuy", msg.ValidateBasic, func() error {
		_, err := ts.Servers.SubscriptionServer.Buy(ts.GoCtx, msg)
		return err
	}); err != nil {
		t.Fatalf("%s", ev.HarnessError("buy: %v", err))
	}
	c.AdvanceEpoch()
	c.AdvanceEpoch()
	return w, cons
}

func newC11Hand(w *chain.World) *c11State {
	return &c11State{witness: true, w: w, c: ev.For("C11-witness"), model: map[cuKey]*big.Int{}, classes: map[string]bool{}, upgradeAt: map[string]uint64{}, monthEndAt: map[string]uint64{}}
}

// handRelay sends one relay of `cu` for the epoch `epoch` and mirrors the tracked CU in the model.
func (s *c11State) handRelay(t *testing.T, cons *chain.Cons, p *chain.Prov, epoch uint64, cu uint64) {
	w := s.w
	b, found := s.entryBlockAt(cons.Addr(), epoch)
	if !found {
		t.Fatalf("%s", ev.HarnessError("no subscription version for epoch %d", epoch))
	}
	r := chain.RelaySpec{Cons: cons, Signer: cons.Acc, Prov: p, Chain: "SP0", Epoch: int64(epoch), Session: w.NextSess, CuSum: cu}
	w.NextSess++
	if _, err := w.SendRelays(p, []chain.RelaySpec{r}); err != nil {
		t.Fatalf("%s", ev.HarnessError("relay payment failed: %v", err))
	}
	k := cuKey{Sub: cons.Addr(), Block: b, Prov: p.Addr(), Chain: "SP0"}
	s.model[k] = s.trackedCu(k)
}

func (s *c11State) handMonth(t *testing.T) {
	for i := 0; i < 31; i++ {
		if !s.step(t, 24*time.Hour) {
			t.Skipf("chain halted (C37 reports halts): %s", s.w.C.Halt)
		}
	}
	s.toNextEpoch(t)
}

// handDrain lets all pending payouts fire.
func (s *c11State) handDrain(t *testing.T) {
	pend, err := pendingPayouts(s.w)
	if err != nil {
		t.Fatalf("%s", ev.HarnessError("%v", err))
	}
	if len(pend) == 0 {
		return
	}
	for j := 0; s.w.C.Height() <= pend[len(pend)-1].Expiry && j < 600; j++ {
		if !s.step(t, 0) {
			t.Skipf("chain halted (C37 reports halts): %s", s.w.C.Halt)
		}
	}
}

// Known finding: when the contributors' cut of a provider's share rounds down to zero,
// PayContributors fails ("trying to pay contributors more than their allowed amount", because
// Coins{}.IsAnyGTE(Coins{}) is false) and RewardProvidersAndDelegators returns before the
// provider is rewarded: the whole share stays in the subscription module account.
func TestC11Known_zeroContributorCut(t *testing.T) {
	w, cons := handWorld(t, 10, 5, 1, 1_000_000, 2)
	s := newC11Hand(w)
	s.handRelay(t, cons, w.Providers[0], w.C.EpochStart(), 10)
	s.handMonth(t)
	s.handDrain(t)
	if s.w.C.Halt != "" {
		t.Skipf("chain halted (C37 reports halts): %s", s.w.C.Halt)
	}
	if s.payoutsSeen == 0 {
		t.Fatalf("%s", ev.HarnessError("no payout observed"))
	}
}

// Known finding: a provider's first relay payment for a past subscription month that arrives
// after its tracked-CU entry of the newer month was created is stored as a "first version" entry
// marked latest (the nearest older entry was deleted by an earlier payout); the payout of the
// past month then deletes the key "at the current height", which removes the newer month's entry:
// the provider's CU of the newer month is gone at its payout.
func TestC11Known_lateRelayEntryMarkedLatest(t *testing.T) {
	w, cons := handWorld(t, 0, 1_000_000, 5, 1_000_000, 2)
	s := newC11Hand(w)
	p0, p1 := w.Providers[0], w.Providers[1]
	s.handRelay(t, cons, p0, w.C.EpochStart(), 100) // month 0
	s.handMonth(t)
	s.handDrain(t) // payout of month 0 deletes p0's entry (it is the latest)
	s.handMonth(t) // month 1 passes without p0; now in month 2
	cur, _ := s.entryBlockAt(cons.Addr(), w.C.Height())
	s.handRelay(t, cons, p0, w.C.EpochStart(), 100) // month 2 entry of p0
	s.handRelay(t, cons, p1, w.C.EpochStart(), 100)
	// late relay of p0 for an epoch of month 1 (still in memory)
	late := uint64(0)
	for _, e := range w.EpochsInMemory() {
		if b, found := s.entryBlockAt(cons.Addr(), e); found && b < cur {
			late = e
			break
		}
	}
	if late == 0 {
		t.Fatalf("%s", ev.HarnessError("no epoch of the previous month in memory"))
	}
	s.handRelay(t, cons, p0, late, 50)
	s.handDrain(t) // payout of month 1
	s.handMonth(t)
	s.handDrain(t) // payout of month 2: p0 must get 1/2 of the month reward
	if s.w.C.Halt != "" {
		t.Skipf("chain halted (C37 reports halts): %s", s.w.C.Halt)
	}
	if s.payoutsSeen < 3 {
		t.Fatalf("%s", ev.HarnessError("payouts observed: %d", s.payoutsSeen))
	}
}

// Known finding: the total tracked CU of a subscription month is summed in uint64
// (GetSubTrackedCuInfo: totalCuTracked += cu). With a plan whose CU limits are 2^64-1 (passes
// ValidatePlan) two accepted relay payments of 2^63+12345 CU wrap the sum: the shares computed
// from the wrapped total exceed the month's credit (transfers fail with "not enough coins" after
// the module account was drained beyond the credit).
func TestC11Known_cuSumWraps(t *testing.T) {
	w, cons := handWorld(t, 0, 1_000_000, 2, hugePlanTotalLimit, 3)
	s := newC11Hand(w)
	ep := w.C.EpochStart()
	s.handRelay(t, cons, w.Providers[2], ep, 1)
	s.handRelay(t, cons, w.Providers[0], ep, 1<<63+12345)
	s.handRelay(t, cons, w.Providers[1], ep, 1<<63+12345)
	s.handMonth(t)
	s.handDrain(t)
	if s.w.C.Halt != "" {
		t.Skipf("chain halted (C37 reports halts): %s", s.w.C.Halt)
	}
	if s.payoutsSeen == 0 {
		t.Fatalf("%s", ev.HarnessError("no payout observed"))
	}
}
