package consumersess

// Shared fixtures of the C28 checks: one loopback gRPC relayer stub per process (unix socket, so
// no port is consumed per case), a deterministic provider optimizer, pairing-list construction
// and the CU/exclusivity ledger used by both the sequential and the concurrent mode.

import (
	"context"
	"crypto/ecdsa"
	"crypto/elliptic"
	crand "crypto/rand"
	"crypto/tls"
	"crypto/x509"
	"crypto/x509/pkix"
	"fmt"
	"math/big"
	"net"
	"os"
	"path/filepath"
	"runtime"
	"sort"
	"sync"
	"sync/atomic"
	"time"

	sdk "github.com/cosmos/cosmos-sdk/types"
	"github.com/lavanet/lava/v5/protocol/lavasession"
	"github.com/lavanet/lava/v5/protocol/provideroptimizer"
	"github.com/lavanet/lava/v5/utils"
	lavarand "github.com/lavanet/lava/v5/utils/rand"
	pairingtypes "github.com/lavanet/lava/v5/x/pairing/types"
	"google.golang.org/grpc"
	"google.golang.org/grpc/connectivity"
	"google.golang.org/grpc/credentials"
)

// ---- loopback relayer stub -------------------------------------------------------------------

type stubRelayer struct {
	pairingtypes.UnimplementedRelayerServer
}

func (*stubRelayer) Probe(_ context.Context, req *pairingtypes.ProbeRequest) (*pairingtypes.ProbeReply, error) {
	return &pairingtypes.ProbeReply{Guid: req.GetGuid(), LatestBlock: 1, FinalizedBlocksHashes: []byte{}, LavaEpoch: 1, LavaLatestBlock: 1}, nil
}

var (
	stubAddr   string // "unix:<path>" understood by lavasession.ConnectGRPCClient
	stubServer *grpc.Server
	stubDir    string
)

func selfSignedECDSA() (tls.Certificate, error) {
	key, err := ecdsa.GenerateKey(elliptic.P256(), crand.Reader)
	if err != nil {
		return tls.Certificate{}, err
	}
	tmpl := x509.Certificate{
		SerialNumber: big.NewInt(1), Subject: pkix.Name{CommonName: "localhost"},
		NotBefore: time.Now().Add(-time.Hour), NotAfter: time.Now().AddDate(1, 0, 0),
		KeyUsage: x509.KeyUsageDigitalSignature, ExtKeyUsage: []x509.ExtKeyUsage{x509.ExtKeyUsageServerAuth},
		BasicConstraintsValid: true,
	}
	der, err := x509.CreateCertificate(crand.Reader, &tmpl, &tmpl, &key.PublicKey, key)
	if err != nil {
		return tls.Certificate{}, err
	}
	return tls.Certificate{Certificate: [][]byte{der}, PrivateKey: key}, nil
}

func startInfra() error {
	lavarand.InitRandomSeed()
	utils.SetGlobalLoggingLevel("fatal")
	lavasession.AllowInsecureConnectionToProviders = true
	dir, err := os.MkdirTemp("", "c28-")
	if err != nil {
		return err
	}
	stubDir = dir
	sock := filepath.Join(dir, "s.sock")
	lis, err := net.Listen("unix", sock)
	if err != nil {
		return err
	}
	cert, err := selfSignedECDSA()
	if err != nil {
		return err
	}
	stubServer = grpc.NewServer(grpc.Creds(credentials.NewTLS(&tls.Config{Certificates: []tls.Certificate{cert}})))
	pairingtypes.RegisterRelayerServer(stubServer, &stubRelayer{})
	go func() { _ = stubServer.Serve(lis) }()
	stubAddr = "unix:" + sock
	// wait until the stub accepts connections
	probe := &lavasession.ConsumerSessionsWithProvider{}
	for i := 0; ; i++ {
		// ConnectRawClientWithTimeout gives up after 1.5 s by itself; on a busy machine the first TLS
		// handshake can take longer, so keep trying for a while
		ctx, cancel := context.WithTimeout(context.Background(), 5*time.Second)
		_, conn, err := probe.ConnectRawClientWithTimeout(ctx, stubAddr)
		cancel()
		if err == nil {
			_ = conn.Close()
			return nil
		}
		if i > 120 {
			return fmt.Errorf("stub not reachable: %w", err)
		}
	}
}

func stopInfra() {
	drainConnPool()
	if stubServer != nil {
		stubServer.Stop()
	}
	if stubDir != "" {
		_ = os.RemoveAll(stubDir)
	}
}

// ---- deterministic provider optimizer --------------------------------------------------------

// mockOptimizer implements lavasession.ProviderOptimizer. It picks exactly one provider (as the
// real optimizer does) among allAddresses minus ignoredProviders, after sorting the candidates,
// by a hash of (seed, call counter). In sequential mode the seed is a rapid draw per GetSessions
// call and `prefer` holds the providers the reference model considers blocked: if the manager
// ever offers one of them as a regular candidate the optimizer takes it, which turns "a blocked
// provider stayed selectable" into a deterministic observation.
type mockOptimizer struct {
	mu     sync.Mutex
	seed   uint64
	ctr    uint64
	prefer map[string]bool
}

func splitmix(x uint64) uint64 {
	x += 0x9e3779b97f4a7c15
	x = (x ^ (x >> 30)) * 0xbf58476d1ce4e5b9
	x = (x ^ (x >> 27)) * 0x94d049bb133111eb
	return x ^ (x >> 31)
}

func (o *mockOptimizer) setSeed(seed uint64, prefer map[string]bool) {
	o.mu.Lock()
	o.seed, o.ctr, o.prefer = seed, 0, prefer
	o.mu.Unlock()
}

func (o *mockOptimizer) pick(all []string, ignored map[string]struct{}) []string {
	cands := make([]string, 0, len(all))
	for _, a := range all {
		if _, ig := ignored[a]; !ig {
			cands = append(cands, a)
		}
	}
	if len(cands) == 0 {
		return []string{}
	}
	sort.Strings(cands)
	o.mu.Lock()
	defer o.mu.Unlock()
	for _, c := range cands {
		if o.prefer[c] {
			return []string{c}
		}
	}
	o.ctr++
	return []string{cands[splitmix(o.seed^splitmix(o.ctr))%uint64(len(cands))]}
}

func (o *mockOptimizer) stats(sel []string) *provideroptimizer.SelectionStats {
	if len(sel) == 0 {
		return nil
	}
	return &provideroptimizer.SelectionStats{SelectedProvider: sel[0], ProviderScores: []provideroptimizer.ProviderScoreDetails{{Address: sel[0], Composite: 1}}}
}

func (o *mockOptimizer) AppendProbeRelayData(string, time.Duration, bool)        {}
func (o *mockOptimizer) AppendRelayFailure(string)                               {}
func (o *mockOptimizer) AppendRelayData(string, time.Duration, uint64, uint64)   {}
func (o *mockOptimizer) UpdateWeights(map[string]int64, uint64)                  {}
func (o *mockOptimizer) Strategy() provideroptimizer.Strategy                    { return provideroptimizer.StrategyBalanced }
func (o *mockOptimizer) GetReputationReportForProvider(string) (*pairingtypes.QualityOfServiceReport, time.Time) {
	return nil, time.Time{}
}

func (o *mockOptimizer) ChooseProvider(_ context.Context, all []string, ignored map[string]struct{}, _ uint64, _ int64) []string {
	return o.pick(all, ignored)
}

func (o *mockOptimizer) ChooseProviderWithStats(_ context.Context, all []string, ignored map[string]struct{}, _ uint64, _ int64) ([]string, *provideroptimizer.SelectionStats) {
	sel := o.pick(all, ignored)
	return sel, o.stats(sel)
}

func (o *mockOptimizer) ChooseBestProvider(_ context.Context, all []string, ignored map[string]struct{}, _ uint64, _ int64) []string {
	return o.pick(all, ignored)
}

func (o *mockOptimizer) ChooseBestProviderWithStats(_ context.Context, all []string, ignored map[string]struct{}, _ uint64, _ int64) ([]string, *provideroptimizer.SelectionStats) {
	sel := o.pick(all, ignored)
	return sel, o.stats(sel)
}

// ---- world: manager + pairing lists ----------------------------------------------------------

const (
	addonName = "ad1"
	ext1Name  = "ext1"
	ext2Name  = "ext2"
)

type provSpec struct {
	Addr  string   `json:"addr"`
	MaxCU uint64   `json:"max_cu"`
	Addon bool     `json:"addon"`
	Exts  []string `json:"exts"`
}

func (p provSpec) supports(addon string, exts []string) bool {
	if addon != "" && !(addon == addonName && p.Addon) {
		return false
	}
	for _, e := range exts {
		found := false
		for _, pe := range p.Exts {
			if pe == e {
				found = true
			}
		}
		if !found {
			return false
		}
	}
	return true
}

type provObj struct {
	spec  provSpec
	cswp  *lavasession.ConsumerSessionsWithProvider
	epoch uint64
	conn  *grpc.ClientConn
}

type world struct {
	csm   *lavasession.ConsumerSessionManager
	opt   *mockOptimizer
	lists [][]*provObj // every pairing list ever installed, oldest first
	epoch uint64
	errCh chan error // results of the UpdateAllProviders calls (they return after a random sleep)
	nUpd  int
}

func newWorld() *world {
	opt := &mockOptimizer{}
	endpoint := &lavasession.RPCEndpoint{NetworkAddress: "stub", ChainID: "stub", ApiInterface: "stub", Geolocation: 0}
	csm := lavasession.NewConsumerSessionManager(endpoint, opt, nil, "lava@consumer", lavasession.NewActiveSubscriptionProvidersStorage())
	return &world{csm: csm, opt: opt, errCh: make(chan error, 64)}
}

// ---- connections: dialed with the manager's own ConnectGRPCClient (TLS, blocking), pooled per process.
// A pairing list shares one connection; a finished case returns it to the pool unless the manager
// closed it (it closes the connections of the list it purges two epochs later).

var connPool = make(chan *grpc.ClientConn, 64)

func getConn() (*grpc.ClientConn, error) {
	for {
		select {
		case c := <-connPool:
			if st := c.GetState(); st == connectivity.Ready || st == connectivity.Idle {
				return c, nil
			}
			_ = c.Close()
			continue
		default:
		}
		break
	}
	var lastErr error
	for attempt := 0; attempt < 3; attempt++ {
		ctx, cancel := context.WithTimeout(context.Background(), 10*time.Second)
		c, err := lavasession.ConnectGRPCClient(ctx, stubAddr, true, false, false)
		cancel()
		if err == nil {
			return c, nil
		}
		lastErr = err
	}
	return nil, lastErr
}

func putConn(c *grpc.ClientConn) {
	if st := c.GetState(); st != connectivity.Ready && st != connectivity.Idle {
		_ = c.Close()
		return
	}
	select {
	case connPool <- c:
	default:
		_ = c.Close()
	}
}

func drainConnPool() {
	for {
		select {
		case c := <-connPool:
			_ = c.Close()
		default:
			return
		}
	}
}

// buildList creates fresh provider entries (one endpoint each, pointing at the loopback stub) in
// the state they have after the provider probe connected them, so that GetSessions finds live
// connections.
func buildList(epoch uint64, specs []provSpec) ([]*provObj, error) {
	conn, err := getConn()
	if err != nil {
		return nil, err
	}
	objs := make([]*provObj, len(specs))
	for i, sp := range specs {
		ep := &lavasession.Endpoint{NetworkAddress: stubAddr, Enabled: true, Connections: []*lavasession.EndpointConnection{},
			Addons: map[string]struct{}{}, Extensions: map[string]struct{}{}}
		if sp.Addon {
			ep.Addons[addonName] = struct{}{}
		}
		for _, e := range sp.Exts {
			ep.Extensions[e] = struct{}{}
		}
		cswp := lavasession.NewConsumerSessionWithProvider(sp.Addr, []*lavasession.Endpoint{ep}, sp.MaxCU, epoch, sdk.NewInt64Coin("ulava", int64(10+i)))
		cswp.VerifConsumerAttachConnection(conn)
		objs[i] = &provObj{spec: sp, cswp: cswp, epoch: epoch, conn: conn}
	}
	return objs, nil
}

// install calls UpdateAllProviders. The call itself only returns after a random sleep of up to
// 500 ms (it scatters the background probes); the pairing update is complete as soon as the
// manager lock is released, which is observed through GetReportedProviders(epoch) (it answers
// nil until the manager is at that epoch and takes the same lock).
func (w *world) install(epoch uint64, objs []*provObj) error {
	m := make(map[uint64]*lavasession.ConsumerSessionsWithProvider, len(objs))
	for i, o := range objs {
		m[uint64(i)] = o.cswp
	}
	w.nUpd++
	go func() { w.errCh <- w.csm.UpdateAllProviders(epoch, m, nil) }()
	deadline := time.Now().Add(20 * time.Second)
	for w.csm.GetReportedProviders(epoch) == nil {
		if time.Now().After(deadline) {
			return fmt.Errorf("UpdateAllProviders(%d) did not take effect within 20s", epoch)
		}
		runtime.Gosched()
		time.Sleep(20 * time.Microsecond)
	}
	w.lists = append(w.lists, objs)
	w.epoch = epoch
	return nil
}

// updateErrors drains the results of finished UpdateAllProviders calls (non-blocking).
func (w *world) updateErrors() (errs []error) {
	for {
		select {
		case e := <-w.errCh:
			if e != nil {
				errs = append(errs, e)
			}
		default:
			return errs
		}
	}
}

// shutdown schedules the teardown of the case three seconds later: the manager's background probe
// of a finished case starts up to 500 ms after UpdateAllProviders; until it is done the provider
// entries keep their live connection, so the probe reaches the stub and changes nothing (if the
// connections were closed or the endpoints disabled right away, the probe would dial again or report
// the providers and the manager's 30 s reconnect loop would dial for every finished case). Then
// the connections the manager dialed by itself are closed and the attached one goes back to the pool.
func (w *world) shutdown() {
	lists := w.lists
	time.AfterFunc(3*time.Second, func() {
		for _, l := range lists {
			for _, o := range l {
				o.cswp.VerifConsumerCloseConnectionsExcept(o.conn)
			}
			if len(l) > 0 {
				putConn(l[0].conn)
			}
		}
	})
}

func (w *world) current() []*provObj { return w.lists[len(w.lists)-1] }

// ---- ledger ----------------------------------------------------------------------------------

type provRec struct {
	obj       *provObj
	completed uint64 // CU of relays that ended with OnSessionDone / OnSessionDoneIncreaseCUOnly
	inflight  uint64 // CU of relays acquired and not yet ended (includes `releasing`)
	releasing uint64 // CU of relays whose OnSessionFailure call is executing right now
	maxVE     uint64 // largest virtual epoch handed to any GetSessions call since the entry exists
}

type sessRec struct {
	prov      *provRec
	holder    int // worker id, -1 = free
	completed uint64
	lastRelay uint64
	uses      int
}

type held struct {
	s   *lavasession.SingleConsumerSession
	rec *sessRec
	cu  uint64
	up  *upRec
	seq int64 // global acquisition order
}

type upRec struct {
	id       int
	up       *lavasession.UsedProviders
	returned map[string]bool // providers ever returned to this relay
	nonU     map[string]bool // providers that were not certainly unblocked during a call of this relay
}

type ledger struct {
	mu      sync.Mutex
	provs   map[*lavasession.ConsumerSessionsWithProvider]*provRec
	order   []*provRec
	sess    map[*lavasession.SingleConsumerSession]*sessRec
	pending map[int]uint64 // worker -> cu of the GetSessions call it is executing
	pendVE  map[int]uint64 // worker -> virtual epoch of that call
	viol    []string
	abort   atomic.Bool // set when a session was handed out twice: workers stop, nobody frees the shared session again
	seq     atomic.Int64
	// evidence
	nAcq, nReuse, nIntervalChecks, nExactChecks int
}

func newLedger() *ledger {
	return &ledger{provs: map[*lavasession.ConsumerSessionsWithProvider]*provRec{}, sess: map[*lavasession.SingleConsumerSession]*sessRec{}, pending: map[int]uint64{}, pendVE: map[int]uint64{}}
}

func (l *ledger) addList(objs []*provObj) {
	l.mu.Lock()
	defer l.mu.Unlock()
	var ve uint64 // a call that is executing right now may reach the new list with its own virtual epoch
	for _, v := range l.pendVE {
		if v > ve {
			ve = v
		}
	}
	for _, o := range objs {
		r := &provRec{obj: o, maxVE: ve}
		l.provs[o.cswp] = r
		l.order = append(l.order, r)
	}
}

func (l *ledger) violf(format string, a ...any) {
	if len(l.viol) < 20 {
		l.viol = append(l.viol, fmt.Sprintf(format, a...))
	}
}

func (l *ledger) violations() []string {
	l.mu.Lock()
	defer l.mu.Unlock()
	return append([]string{}, l.viol...)
}

// beginAcquire must be called before GetSessions.
func (l *ledger) beginAcquire(w int, cu, ve uint64) {
	l.mu.Lock()
	defer l.mu.Unlock()
	l.pending[w] = cu
	l.pendVE[w] = ve
	for _, r := range l.order {
		if ve > r.maxVE {
			r.maxVE = ve
		}
	}
}

// endAcquire records what GetSessions returned and evaluates the acquisition clauses.
func (l *ledger) endAcquire(w int, cu uint64, res lavasession.ConsumerSessionsMap, up *upRec) []*held {
	l.mu.Lock()
	defer l.mu.Unlock()
	delete(l.pending, w)
	delete(l.pendVE, w)
	addrs := make([]string, 0, len(res))
	for a := range res {
		addrs = append(addrs, a)
	}
	sort.Strings(addrs)
	var out []*held
	seen := map[*lavasession.SingleConsumerSession]bool{}
	for _, a := range addrs {
		info := res[a]
		if info == nil || info.Session == nil {
			l.violf("GetSessions returned a nil session for provider %s", a)
			continue
		}
		s := info.Session
		pr := l.provs[s.Parent]
		if pr == nil {
			l.violf("GetSessions returned a session of provider %s whose parent entry was never installed by UpdateAllProviders", a)
			continue
		}
		if pr.obj.spec.Addr != a {
			l.violf("GetSessions returned under key %s a session whose parent is provider %s", a, pr.obj.spec.Addr)
		}
		rec := l.sess[s]
		if rec == nil {
			rec = &sessRec{prov: pr, holder: -1}
			l.sess[s] = rec
		} else {
			l.nReuse++
		}
		l.nAcq++
		// exclusivity
		if rec.holder != -1 || seen[s] {
			l.violf("session %d of provider %s (epoch %d) was handed to worker %d while worker %d still holds it", s.SessionId, a, pr.obj.epoch, w, rec.holder)
			// the second holder neither uses nor frees it (a second Free would unlock an unlocked mutex and
			// kill the process before the violation is reported)
			l.abort.Store(true)
			continue
		}
		seen[s] = true
		// the holder owns the session lock, so reading the plain fields is race free on correct code
		if s.LatestRelayCu != cu {
			l.violf("acquired session %d of %s: LatestRelayCu=%d but the relay requested %d CU", s.SessionId, a, s.LatestRelayCu, cu)
		}
		if s.CuSum != rec.completed {
			l.violf("acquired session %d of %s: CuSum=%d but the CU of its completed relays is %d (the relay would sign %d instead of %d)", s.SessionId, a, s.CuSum, rec.completed, s.CuSum+s.LatestRelayCu, rec.completed+cu)
		}
		if s.RelayNum <= rec.lastRelay {
			l.violf("acquired session %d of %s: relay number %d does not exceed the previous relay number %d", s.SessionId, a, s.RelayNum, rec.lastRelay)
		}
		rec.lastRelay = s.RelayNum
		rec.holder = w
		rec.uses++
		pr.inflight += cu
		h := &held{s: s, rec: rec, cu: cu, up: up, seq: l.seq.Add(1)}
		out = append(out, h)
		if up != nil {
			up.returned[a] = true
		}
	}
	l.intervalsLocked()
	return out
}

// beginRelease must be called before OnSessionDone* / OnSessionFailure: from here on the manager
// may hand the session to somebody else.
func (l *ledger) beginRelease(w int, h *held, success bool) {
	l.mu.Lock()
	defer l.mu.Unlock()
	if h.rec.holder != w {
		l.violf("harness: worker %d releases session %d it does not hold (holder %d)", w, h.s.SessionId, h.rec.holder)
	}
	h.rec.holder = -1
	if success {
		h.rec.completed += h.cu
		h.rec.prov.completed += h.cu
		h.rec.prov.inflight -= h.cu
	} else {
		h.rec.prov.releasing += h.cu
	}
}

func (l *ledger) endRelease(h *held, success bool) {
	l.mu.Lock()
	defer l.mu.Unlock()
	if !success {
		h.rec.prov.releasing -= h.cu
		h.rec.prov.inflight -= h.cu
	}
	l.intervalsLocked()
}

// intervalsLocked checks, for every provider entry, that the manager's used CU lies between what
// the ledger knows for sure and what calls that are executing right now may have added, and that
// it never exceeds max CU x (virtual epoch + 1). With no call executing this is an equality.
func (l *ledger) intervalsLocked() {
	var pend uint64
	for _, cu := range l.pending {
		pend += cu
	}
	for _, r := range l.order {
		used := r.obj.cswp.VerifConsumerUsedCU()
		lo := r.completed + r.inflight - r.releasing
		hi := r.completed + r.inflight + pend
		l.nIntervalChecks++
		if used < lo || used > hi {
			l.violf("provider %s (epoch %d): UsedComputeUnits=%d outside [%d,%d] (completed %d + in-flight %d, %d being released, %d CU in executing GetSessions calls)",
				r.obj.spec.Addr, r.obj.epoch, used, lo, hi, r.completed, r.inflight, r.releasing, pend)
		}
		if limit := r.obj.spec.MaxCU * (r.maxVE + 1); used > limit {
			l.violf("provider %s (epoch %d): UsedComputeUnits=%d exceeds MaxComputeUnits %d x (virtual epoch %d + 1) = %d", r.obj.spec.Addr, r.obj.epoch, used, r.obj.spec.MaxCU, r.maxVE, limit)
		}
	}
}

// exact is the quiescence check: no call is executing, so used CU must equal completed + in-flight.
func (l *ledger) exact() {
	l.mu.Lock()
	defer l.mu.Unlock()
	if len(l.pending) != 0 {
		l.violf("harness: exact check with executing calls")
	}
	for _, r := range l.order {
		used := r.obj.cswp.VerifConsumerUsedCU()
		l.nExactChecks++
		if used != r.completed+r.inflight || r.releasing != 0 {
			l.violf("provider %s (epoch %d) at quiescence: UsedComputeUnits=%d but completed %d + in-flight %d = %d", r.obj.spec.Addr, r.obj.epoch, used, r.completed, r.inflight, r.completed+r.inflight)
		}
		if limit := r.obj.spec.MaxCU * (r.maxVE + 1); used > limit {
			l.violf("provider %s (epoch %d) at quiescence: UsedComputeUnits=%d exceeds MaxComputeUnits %d x (virtual epoch %d + 1)", r.obj.spec.Addr, r.obj.epoch, used, r.obj.spec.MaxCU, r.maxVE)
		}
	}
}

func (l *ledger) usedByLedger(c *lavasession.ConsumerSessionsWithProvider) uint64 {
	l.mu.Lock()
	defer l.mu.Unlock()
	r := l.provs[c]
	return r.completed + r.inflight
}
