package consumersess

// C28, sequential mode: a rapid state machine drives one ConsumerSessionManager through
// GetSessions / OnSessionDone / OnSessionDoneIncreaseCUOnly / OnSessionFailure(kinds) /
// UpdateAllProviders / virtual-epoch bumps and compares it, after every step, with a ledger
// (exact CU accounting, exclusivity, relay numbers) and with a three-valued model of which
// providers are blocked in the current epoch.

import (
	"context"
	"errors"
	"fmt"
	"os"
	"sort"
	"strings"
	"testing"
	"time"

	sdkerrors "cosmossdk.io/errors"
	"github.com/lavanet/lava/v5/protocol/common"
	"github.com/lavanet/lava/v5/protocol/lavasession"
	spectypes "github.com/lavanet/lava/v5/x/spec/types"
	"pgregory.net/rapid"

	"verifharness/internal/ev"
)

// ---- generators shared by both modes ---------------------------------------------------------

func genSpecs(t *rapid.T, label string, n int, tag string) []provSpec {
	specs := make([]provSpec, n)
	for i := range specs {
		sp := provSpec{Addr: fmt.Sprintf("lava@%s%d", tag, i)}
		sp.MaxCU = uint64(rapid.SampledFrom([]int{10, 15, 20, 30, 40, 60}).Draw(t, label+"max"))
		switch rapid.IntRange(0, 5).Draw(t, label+"svc") {
		case 0:
			sp.Addon = true
		case 1:
			sp.Addon, sp.Exts = true, []string{ext1Name}
		case 2:
			sp.Addon, sp.Exts = true, []string{ext1Name, ext2Name}
		case 3:
			sp.Exts = []string{ext1Name}
		}
		specs[i] = sp
	}
	return specs
}

type getArgs struct {
	CU       uint64   `json:"cu"`
	Wanted   int      `json:"wanted"`
	Addon    string   `json:"addon"`
	Exts     []string `json:"exts"`
	Stateful uint32   `json:"stateful"`
	Block    int64    `json:"block"`
}

func genGetArgs(t *rapid.T) getArgs {
	g := getArgs{}
	g.CU = uint64(rapid.SampledFrom([]int{1, 5, 5, 10, 10, 10, 15, 20, 30}).Draw(t, "cu"))
	g.Wanted = rapid.SampledFrom([]int{1, 1, 1, 1, 2, 3}).Draw(t, "wanted")
	switch rapid.IntRange(0, 11).Draw(t, "svc") {
	case 0, 1:
		g.Addon = addonName
	case 2:
		g.Exts = []string{ext1Name}
	case 3:
		g.Addon, g.Exts = addonName, []string{ext1Name}
	case 4:
		g.Exts = []string{ext1Name, ext2Name}
	}
	if rapid.IntRange(0, 7).Draw(t, "stateful") == 0 {
		g.Stateful = common.CONSISTENCY_SELECT_ALL_PROVIDERS
	}
	g.Block = int64(rapid.SampledFrom([]int{-2, -1, 1, 100}).Draw(t, "block"))
	return g
}

func (g getArgs) extensions() []*spectypes.Extension {
	var out []*spectypes.Extension
	for _, e := range g.Exts {
		out = append(out, &spectypes.Extension{Name: e})
	}
	return out
}

func (g getArgs) String() string {
	return fmt.Sprintf("cu=%d n=%d addon=%q ext=%v st=%d", g.CU, g.Wanted, g.Addon, g.Exts, g.Stateful)
}

type failKind int

const (
	failPlain failKind = iota
	failNil
	failBlock
	failReportBlock
	failSync
	failBlockEndpoint
)

var failNames = []string{"plain", "nil", "block-provider", "report-and-block", "out-of-sync", "block-endpoint"}

func (k failKind) err() error {
	switch k {
	case failPlain:
		return errors.New("relay failed: connection reset")
	case failNil:
		return nil
	case failBlock:
		return sdkerrors.Wrap(lavasession.BlockProviderError, "provider returned wrong data")
	case failReportBlock:
		return sdkerrors.Wrap(lavasession.ReportAndBlockProviderError, "provider misbehaved")
	case failSync:
		return sdkerrors.Wrap(lavasession.SessionOutOfSyncError, "cu mismatch")
	default:
		return sdkerrors.Wrap(lavasession.BlockEndpointError, "endpoint failed consistency validation")
	}
}

func genFailKind(t *rapid.T) failKind {
	return failKind(rapid.SampledFrom([]int{0, 0, 1, 2, 2, 2, 2, 3, 4, 5}).Draw(t, "failKind"))
}

// ---- three-valued blocked-provider model -----------------------------------------------------

type bstate int

const (
	stU bstate = iota // certainly selectable (in the valid list)
	stB               // certainly blocked in the current epoch by a BlockProviderError failure
	stX               // unknown (second chance / report / asynchronous recovery / carried over an epoch)
)

type tri int

const (
	no tri = iota
	yes
	maybe
)

type seqRun struct {
	t      *rapid.T
	c      *ev.Collector
	w      *world
	l      *ledger
	ctx    context.Context
	ve     uint64
	state  map[string]bstate                                    // current epoch, by address
	used   map[*lavasession.ConsumerSessionsWithProvider]tri    // "returned from the blocked list and not yet redeemed" flag of a provider entry
	consec map[*lavasession.SingleConsumerSession]int           // consecutive failures per session
	// pending: addresses for which an asynchronous "return to the valid list" may still fire (a redemption
	// whose effect could not be observed, or a provider re-blocked at an epoch change that the background
	// probe releases at an unknown time). Such a provider is never again considered certainly blocked.
	pending map[string]bool
	held   []*held
	ups    []*upRec
	nUp    int
	ops    []string
	nEpoch int
	// evidence
	blockedAt       int // index of the op after which some provider was certainly blocked (-1 none)
	acqAfterBlock   int
	sawFallback     bool
	sawReset        bool
	sawExhausted    bool
	sawSyncLoss     bool
	sawGetError     bool
	sawVE           bool
	sawRedemption   bool
	sawSuccessOnBlocked bool
	clauseBlockedEv int
}

func (r *seqRun) opf(format string, a ...any) { r.ops = append(r.ops, fmt.Sprintf(format, a...)) }

func (r *seqRun) fail(format string, a ...any) {
	st := r.w.csm.VerifConsumerState()
	r.t.Fatalf("%s", ev.Violation("C28", "%s\nmanager: epoch=%d valid=%v blocked=%v\nmodel: %s\nops:\n  %s",
		fmt.Sprintf(format, a...), st.Epoch, st.Valid, st.Blocked, r.modelString(), strings.Join(r.ops, "\n  ")))
}

func (r *seqRun) modelString() string {
	var parts []string
	for _, o := range r.w.current() {
		parts = append(parts, fmt.Sprintf("%s:%s/used=%s/cu=%d/%d", o.spec.Addr, []string{"U", "B", "X"}[r.state[o.spec.Addr]], []string{"no", "yes", "maybe"}[r.used[o.cswp]], r.l.usedByLedger(o.cswp), o.spec.MaxCU))
	}
	return strings.Join(parts, " ")
}

func (r *seqRun) checkLedger() {
	if v := r.l.violations(); len(v) > 0 {
		if h := harnessOnly(v); h != "" {
			r.t.Fatalf("%s", ev.HarnessError("%s\nops:\n  %s", h, strings.Join(r.ops, "\n  ")))
		}
		r.fail("%s", strings.Join(v, "\n"))
	}
}

// harnessOnly returns the first ledger message that reports a bookkeeping error of the harness
// itself (they are prefixed "harness:"), or "".
func harnessOnly(v []string) string {
	for _, s := range v {
		if strings.HasPrefix(s, "harness:") {
			return s
		}
	}
	return ""
}

func (r *seqRun) curObj(addr string) *provObj {
	for _, o := range r.w.current() {
		if o.spec.Addr == addr {
			return o
		}
	}
	return nil
}

func (r *seqRun) refusals() (n uint64) {
	for _, o := range r.w.current() {
		n += o.cswp.VerifConsumerConnectionRefusals()
	}
	return n
}

// giveUpBlockedKnowledge is used when something outside the modelled domain happened (a
// connection attempt failed under load): nothing is certain any more in this epoch.
func (r *seqRun) giveUpBlockedKnowledge() {
	for _, o := range r.w.current() {
		r.state[o.spec.Addr] = stX
		r.used[o.cswp] = maybe
		r.pending[o.spec.Addr] = true
	}
}

func (r *seqRun) installEpoch(specs []provSpec, epoch uint64) {
	objs, err := buildList(epoch, specs)
	if err != nil {
		r.t.Fatalf("%s", ev.HarnessError("cannot connect pairing list: %v", err))
	}
	r.l.addList(objs)
	old := r.state
	if err := r.w.install(epoch, objs); err != nil {
		r.t.Fatalf("%s", ev.HarnessError("%v", err))
	}
	r.state = map[string]bstate{}
	for _, o := range objs {
		// providers that were (possibly) blocked when the epoch changed are re-blocked by the manager and
		// released again by a background probe at an unknown time: unknown for the whole new epoch.
		if st, ok := old[o.spec.Addr]; ok && st != stU {
			r.state[o.spec.Addr] = stX
			r.pending[o.spec.Addr] = true
		} else {
			r.state[o.spec.Addr] = stU
		}
		r.used[o.cswp] = no
	}
	r.ve = 0
	r.nEpoch++
}

func certainlyBlocked(state map[string]bstate) map[string]bool {
	m := map[string]bool{}
	for a, s := range state {
		if s == stB {
			m[a] = true
		}
	}
	return m
}

// applyResetRule models validatePairingListNotEmpty at the start of GetSessions: if no provider
// supporting the requested addon/extensions is selectable, the manager resets its valid list
// (all providers for the plain request, the supporting ones otherwise).
func (r *seqRun) applyResetRule(g getArgs) {
	plain := g.Addon == "" && len(g.Exts) == 0
	anyU, anyX := false, false
	for _, o := range r.w.current() {
		if !o.spec.supports(g.Addon, g.Exts) {
			continue
		}
		switch r.state[o.spec.Addr] {
		case stU:
			anyU = true
		case stX:
			anyX = true
		}
	}
	if anyU {
		return
	}
	for _, o := range r.w.current() {
		if r.state[o.spec.Addr] != stB {
			continue
		}
		if plain || o.spec.supports(g.Addon, g.Exts) {
			if anyX {
				r.state[o.spec.Addr] = stX // the reset happens only if the unknown ones are in fact blocked
			} else {
				r.state[o.spec.Addr] = stU
				r.sawReset = true
			}
		}
	}
}

func (r *seqRun) opGet(t *rapid.T) {
	g := genGetArgs(t)
	var up *upRec
	if len(r.ups) > 0 && rapid.IntRange(0, 2).Draw(t, "reuseRelay") > 0 {
		up = r.ups[rapid.IntRange(0, len(r.ups)-1).Draw(t, "relay")]
	} else {
		r.nUp++
		up = &upRec{id: r.nUp, up: lavasession.NewUsedProviders(nil), returned: map[string]bool{}, nonU: map[string]bool{}}
		r.ups = append(r.ups, up)
		if len(r.ups) > 4 {
			r.ups = r.ups[1:]
		}
	}
	seed := rapid.Uint64().Draw(t, "optSeed")
	preferBlocked := rapid.IntRange(0, 3).Draw(t, "preferBlocked") > 0

	// state before the call
	for a, s := range r.state {
		if s != stU {
			up.nonU[a] = true
		}
	}
	ignoredBefore := up.up.GetUnwantedProvidersToSend(lavasession.NewRouterKeyFromExtensions(g.extensions()))
	r.applyResetRule(g)
	stateAtCall := map[string]bstate{}
	for a, s := range r.state {
		stateAtCall[a] = s
	}
	usedBefore := map[string]uint64{}
	for _, o := range r.w.current() {
		usedBefore[o.spec.Addr] = r.l.usedByLedger(o.cswp)
	}
	var prefer map[string]bool
	if preferBlocked {
		prefer = certainlyBlocked(r.state)
	}
	r.w.opt.setSeed(seed, prefer)
	refBefore := r.refusals()

	r.l.beginAcquire(0, g.CU, r.ve)
	res, err := r.w.csm.GetSessions(r.ctx, g.Wanted, g.CU, up.up, g.Block, g.Addon, g.extensions(), g.Stateful, r.ve, "", "")
	hs := r.l.endAcquire(0, g.CU, res, up)
	r.held = append(r.held, hs...)

	var got []string
	for _, h := range hs {
		got = append(got, h.rec.prov.obj.spec.Addr)
	}
	r.opf("get relay#%d %s ve=%d ignored=%v -> %v err=%v", up.id, g, r.ve, sortedKeys(ignoredBefore), got, err != nil)
	r.checkLedger()
	if err != nil {
		r.sawGetError = true
	}
	if r.ve > 0 && len(hs) > 0 {
		r.sawVE = true
	}
	if r.blockedAt >= 0 && len(hs) > 0 {
		r.acqAfterBlock++
	}
	connectTrouble := r.refusals() != refBefore
	if connectTrouble {
		r.c.Class("connect-trouble")
		r.giveUpBlockedKnowledge()
		return
	}

	// ---- blocked-provider clause ----
	inResult := map[string]bool{}
	for _, a := range got {
		inResult[a] = true
	}
	for _, o := range r.w.current() {
		if usedBefore[o.spec.Addr]+g.CU > o.spec.MaxCU*(r.ve+1) && stateAtCall[o.spec.Addr] == stU && o.spec.supports(g.Addon, g.Exts) {
			r.sawExhausted = true
		}
	}
	for _, a := range got {
		if stateAtCall[a] != stB {
			continue
		}
		r.sawFallback = true
		r.c.Clause("blocked-provider-only-as-last-resort")
		r.clauseBlockedEv++
		for _, o := range r.w.current() {
			q := o.spec.Addr
			if stateAtCall[q] != stU || inResult[q] || !o.spec.supports(g.Addon, g.Exts) {
				continue
			}
			if usedBefore[q]+g.CU > o.spec.MaxCU*(r.ve+1) {
				continue // exhausted for this request
			}
			if _, ig := ignoredBefore[q]; ig {
				if up.returned[q] || up.nonU[q] {
					continue // already used by this relay, or skipped by it while it was blocked
				}
				r.fail("GetSessions chose provider %s, blocked in epoch %d, although unblocked provider %s could serve the request (%s): %s is in the relay's ignore set but was never returned to this relay nor blocked during it",
					a, r.w.epoch, q, g, q)
			}
			r.fail("GetSessions chose provider %s, blocked in epoch %d by a BlockProviderError failure, although unblocked provider %s could serve the request (%s, used %d of %d CU, not ignored)",
				a, r.w.epoch, q, g, usedBefore[q], o.spec.MaxCU*(r.ve+1))
		}
	}
	// ---- model update: who may now carry the "returned from the blocked list" flag ----
	for _, h := range hs {
		a := h.rec.prov.obj.spec.Addr
		c := h.rec.prov.obj.cswp
		switch stateAtCall[a] {
		case stB:
			r.used[c] = yes
		case stX:
			if r.used[c] != yes {
				r.used[c] = maybe
			}
		}
	}
}

func sortedKeys(m map[string]struct{}) []string {
	out := make([]string, 0, len(m))
	for k := range m {
		out = append(out, k)
	}
	sort.Strings(out)
	return out
}

func (r *seqRun) pickHeld(t *rapid.T) (int, *held) {
	if len(r.held) == 0 {
		t.Skip("no session held")
	}
	i := rapid.IntRange(0, len(r.held)-1).Draw(t, "held")
	return i, r.held[i]
}

// pickHeldBiased prefers, two times out of three, a held session that satisfies want (if any does):
// sessions of providers with several relays in flight are the interesting ones to fail, sessions of
// currently blocked providers the interesting ones to complete.
func (r *seqRun) pickHeldBiased(t *rapid.T, want func(*held) bool) (int, *held) {
	if len(r.held) == 0 {
		t.Skip("no session held")
	}
	var cands []int
	for i, h := range r.held {
		if want(h) {
			cands = append(cands, i)
		}
	}
	if len(cands) > 0 && rapid.IntRange(0, 2).Draw(t, "targeted") > 0 {
		i := cands[rapid.IntRange(0, len(cands)-1).Draw(t, "heldTargeted")]
		return i, r.held[i]
	}
	return r.pickHeld(t)
}

func (r *seqRun) heldOfProvider(c *lavasession.ConsumerSessionsWithProvider) (n int) {
	for _, h := range r.held {
		if h.rec.prov.obj.cswp == c {
			n++
		}
	}
	return n
}

func (r *seqRun) dropHeld(i int) { r.held = append(r.held[:i], r.held[i+1:]...) }

// waitValid waits (bounded) for the asynchronous return of a redeemed provider to the valid list.
func (r *seqRun) waitValid(addr string) bool {
	deadline := time.Now().Add(300 * time.Millisecond)
	r.c.AddExtra("redemption_waits", 1)
	for {
		st := r.w.csm.VerifConsumerState()
		for _, v := range st.Valid {
			if v == addr {
				return true
			}
		}
		if time.Now().After(deadline) {
			r.c.AddExtra("redemption_wait_timeouts", 1)
			return false
		}
		time.Sleep(50 * time.Microsecond)
	}
}

func (r *seqRun) inManagerBlockedList(addr string) bool {
	for _, b := range r.w.csm.VerifConsumerState().Blocked {
		if b == addr {
			return true
		}
	}
	return false
}

func (r *seqRun) opDone(t *rapid.T, cuOnly bool) {
	i, h := r.pickHeldBiased(t, func(h *held) bool {
		o := h.rec.prov.obj
		return o.epoch == r.w.epoch && r.state[o.spec.Addr] == stB
	})
	r.dropHeld(i)
	obj := h.rec.prov.obj
	addr := obj.spec.Addr
	redeems := !cuOnly && r.used[obj.cswp] != no
	// Synchronisation only (not an oracle): a redeeming OnSessionDone starts a goroutine that moves the
	// provider from the blocked list back to the valid list. If the provider is in the blocked list now,
	// the goroutine's effect is observable and is awaited below; if not, the goroutine is a no-op whenever
	// it runs, unless the provider is blocked again before it runs - so the address stays `pending`.
	wasListed := redeems && r.inManagerBlockedList(addr)
	r.l.beginRelease(0, h, true)
	var err error
	if cuOnly {
		err = r.w.csm.OnSessionDoneIncreaseCUOnly(h.s, 30)
	} else {
		// the spec CU of the api handed to OnSessionDone need not equal the CU reserved by GetSessions
		// (extensions multiply the reserved CU); the session must account the reserved amount
		specCU := h.cu + uint64(rapid.SampledFrom([]int{0, 0, 3}).Draw(t, "specCuDelta"))
		err = r.w.csm.OnSessionDone(h.s, 30, specCU, time.Millisecond, h.s.CalculateExpectedLatency(2*time.Millisecond), 1, len(r.w.current()), uint64(len(r.w.current())), rapid.Bool().Draw(t, "hanging"), nil)
	}
	r.l.endRelease(h, true)
	r.opf("done(cuOnly=%v) %s sess#%d cu=%d", cuOnly, addr, h.seq, h.cu)
	if err != nil {
		r.fail("OnSessionDone on a session the relay holds returned %v", err)
	}
	r.consec[h.s] = 0
	if !cuOnly && !redeems && obj.epoch == r.w.epoch && r.state[addr] == stB {
		r.sawSuccessOnBlocked = true // an older relay of a provider that was blocked meanwhile ends well: the provider must stay blocked
	}
	if redeems {
		r.used[obj.cswp] = no
		r.sawRedemption = true
		switch {
		case !wasListed:
			r.pending[addr] = true
		case r.waitValid(addr):
			if r.curObj(addr) != nil {
				r.state[addr] = stU
			}
		default:
			r.pending[addr] = true
			if r.curObj(addr) != nil && r.state[addr] != stU {
				r.state[addr] = stX
			}
		}
	}
	r.checkLedger()
}

func (r *seqRun) opFail(t *rapid.T) {
	i, h := r.pickHeldBiased(t, func(h *held) bool { return r.heldOfProvider(h.rec.prov.obj.cswp) > 1 })
	kind := genFailKind(t)
	r.dropHeld(i)
	obj := h.rec.prov.obj
	addr := obj.spec.Addr
	usedBefore := r.l.usedByLedger(obj.cswp)
	r.l.beginRelease(0, h, false)
	err := r.w.csm.OnSessionFailure(h.s, kind.err())
	r.l.endRelease(h, false)
	r.opf("fail(%s) %s sess#%d cu=%d", failNames[kind], addr, h.seq, h.cu)
	if err != nil {
		r.fail("OnSessionFailure(%s) on a session the relay holds returned %v", failNames[kind], err)
	}
	r.consec[h.s]++
	cur := obj.epoch == r.w.epoch
	flag := r.used[obj.cswp]
	sessionBlocked := kind == failSync || r.consec[h.s] > lavasession.MaximumNumberOfFailuresAllowedPerConsumerSession
	if kind == failSync {
		r.sawSyncLoss = true
	}
	if cur && flag != yes {
		switch {
		case kind == failBlock:
			switch {
			case flag == no && r.state[addr] == stU && !r.pending[addr]:
				r.state[addr] = stB
				if r.blockedAt < 0 {
					r.blockedAt = len(r.ops)
				}
			case r.state[addr] == stU:
				r.state[addr] = stX
			}
		case kind == failReportBlock:
			if r.state[addr] == stU {
				r.state[addr] = stX // reported blocks are outside the asserted domain
			}
		case kind == failBlockEndpoint:
			// the session's endpoint is disabled; whether the provider can still be selected depends on
			// its remaining endpoints and on asynchronous reconnects: not certainly selectable any more
			// (the thorough tier showed a stateful GetSessions skipping such a provider)
			if r.state[addr] == stU {
				r.state[addr] = stX
			}
		}
		if sessionBlocked && usedBefore <= h.cu && r.state[addr] == stU {
			r.state[addr] = stX // block with a timed second chance: outside the asserted domain
		}
	}
	r.checkLedger()
}

func (r *seqRun) opUpdate(t *rapid.T) {
	if r.nEpoch >= 4 {
		t.Skip("enough epochs")
	}
	old := r.w.current()
	n := rapid.IntRange(3, 8).Draw(t, "nProviders")
	tag := fmt.Sprintf("e%dp", r.nEpoch)
	fresh := genSpecs(t, "upd", n, tag)
	// keep some addresses (with possibly different limits) so that blocked history carries over
	for i := range fresh {
		if i < len(old) && rapid.Bool().Draw(t, "keepAddr") {
			fresh[i].Addr = old[i].spec.Addr
		}
	}
	epoch := r.w.epoch + uint64(rapid.SampledFrom([]int{1, 20, 20}).Draw(t, "epochStep"))
	r.installEpoch(fresh, epoch)
	r.opf("update epoch=%d providers=%v", epoch, specString(fresh))
	r.checkLedger()
}

func specString(specs []provSpec) string {
	var parts []string
	for _, s := range specs {
		p := fmt.Sprintf("%s:%d", s.Addr, s.MaxCU)
		if s.Addon {
			p += "+ad"
		}
		for _, e := range s.Exts {
			p += "+" + e
		}
		parts = append(parts, p)
	}
	return strings.Join(parts, ",")
}

func propC28Seq(t *rapid.T) {
	tok := beginCase()
	defer tok.end()
	c := ev.For("C28")
	r := &seqRun{t: t, c: c, w: newWorld(), l: newLedger(), ctx: context.Background(), blockedAt: -1,
		used: map[*lavasession.ConsumerSessionsWithProvider]tri{}, consec: map[*lavasession.SingleConsumerSession]int{}, state: map[string]bstate{}, pending: map[string]bool{}}
	defer r.w.shutdown()
	n := rapid.SampledFrom([]int{3, 3, 4, 4, 5, 6, 7, 8}).Draw(t, "nProviders")
	specs := genSpecs(t, "init", n, "p")
	r.installEpoch(specs, 20)
	r.opf("init epoch=20 providers=%v", specString(specs))

	t.Repeat(map[string]func(*rapid.T){
		"get":    r.opGet,
		"get2":   r.opGet,
		"get3":   r.opGet,
		"done":   func(t *rapid.T) { r.opDone(t, false) },
		"done2":  func(t *rapid.T) { r.opDone(t, false) },
		"doneCU": func(t *rapid.T) { r.opDone(t, true) },
		"fail":   r.opFail,
		"fail2":  r.opFail,
		"update": func(t *rapid.T) {
			if rapid.IntRange(0, 3).Draw(t, "reallyUpdate") != 0 {
				t.Skip("no update")
			}
			r.opUpdate(t)
		},
		"bumpVE": func(t *rapid.T) {
			if r.ve >= 2 || rapid.IntRange(0, 2).Draw(t, "reallyBump") != 0 {
				t.Skip("no bump")
			}
			r.ve++
			r.opf("virtualEpoch=%d", r.ve)
		},
		"": func(t *rapid.T) {
			r.l.exact()
			r.checkLedger()
		},
	})
	for _, e := range r.w.updateErrors() {
		r.fail("UpdateAllProviders to a newer epoch returned %v", e)
	}
	if os.Getenv("VERIF_C28_SELFCHECK") != "" {
		r.selfCheck()
	}

	nontrivial := r.blockedAt >= 0 && r.acqAfterBlock > 0
	classes := []string{"mode:sequential"}
	add := func(b bool, name string) {
		if b {
			classes = append(classes, name)
		}
	}
	add(nontrivial, "block-failure-then-acquisitions")
	add(r.sawFallback, "blocked-provider-returned-as-last-resort")
	add(r.sawReset, "valid-list-reset")
	add(r.sawExhausted, "unblocked-provider-exhausted")
	add(r.sawSyncLoss, "out-of-sync-failure")
	add(r.sawGetError, "getsessions-error")
	add(r.sawVE, "virtual-epoch>0")
	add(r.sawRedemption, "blocked-provider-redeemed")
	add(r.sawSuccessOnBlocked, "older-relay-of-blocked-provider-succeeds")
	add(r.nEpoch > 1, "epoch-update")
	add(r.l.nReuse > 0, "session-reused")
	tok.done = true
	c.Case(nontrivial, "seq|"+strings.Join(r.ops, ";"), classes...)
	c.AddExtra("ledger_interval_checks", r.l.nIntervalChecks)
	c.AddExtra("ledger_exact_checks", r.l.nExactChecks)
	c.AddExtra("acquisitions", r.l.nAcq)
	c.ClauseN("used-cu-equals-completed-plus-inflight", r.l.nExactChecks)
	c.ClauseN("used-cu-within-max-times-virtual-epoch", r.l.nExactChecks+r.l.nIntervalChecks)
	c.ClauseN("session-exclusive+cusum+relaynum-at-acquisition", r.l.nAcq)
	if nontrivial {
		c.Sample(map[string]any{"mode": "sequential", "ops": r.ops})
	}
}

// selfCheck (development aid, VERIF_C28_SELFCHECK=1): the model's certain states must agree with
// the manager's lists. A disagreement is reported as a harness error, never as a violation.
func (r *seqRun) selfCheck() {
	st := r.w.csm.VerifConsumerState()
	valid := map[string]bool{}
	for _, v := range st.Valid {
		valid[v] = true
	}
	for _, o := range r.w.current() {
		a := o.spec.Addr
		if (r.state[a] == stU && !valid[a]) || (r.state[a] == stB && valid[a]) {
			r.t.Fatalf("%s", ev.HarnessError("model/manager disagreement on %s: model %d valid=%v\nmanager valid=%v blocked=%v\nops:\n  %s", a, r.state[a], valid[a], st.Valid, st.Blocked, strings.Join(r.ops, "\n  ")))
		}
	}
}

func TestC28Seq(t *testing.T) {
	setRule()
	rapid.Check(t, propC28Seq)
}

func setRule() {
	c := ev.For("C28")
	c.SetRule("two generators on a real ConsumerSessionManager with a loopback gRPC relayer stub and 3-8 providers (max CU 10-60, addon/extension subsets): (1) a sequential rapid state machine over GetSessions(cu, wanted 1-3, addon, extensions, stateful, virtual epoch, fresh or retried relay) / OnSessionDone / OnSessionDoneIncreaseCUOnly / OnSessionFailure(plain, nil, BlockProviderError, ReportAndBlockProviderError, SessionOutOfSyncError, BlockEndpointError) / UpdateAllProviders(next epoch, partly overlapping list) / virtual-epoch bumps; (2) 4-16 goroutine workers running drawn scripts of the same operations in barrier-separated phases under -race. Non-trivial = a BlockProviderError failure blocked a provider and further acquisitions followed; distinct = distinct operation scripts")
	c.Assume("the blocked-provider clause is asserted only in sequential mode, within one epoch, for providers blocked by a BlockProviderError failure without report or timed second chance; providers whose status depends on asynchronous recovery, reports, second chances or the previous epoch are treated as unknown (neither blocked nor certainly selectable)",
		"stickiness and forced provider selection are not used (callers pass \"\"), no backup providers, one endpoint per provider, the loopback stub accepts every connection; if a connection attempt fails under load the blocked-provider clause is skipped for that epoch",
		"UpdateAllProviders is only called with strictly increasing epochs, virtual epoch is non-decreasing within an epoch and reset by an epoch update",
		"provider selection inside the manager uses a deterministic stand-in for the ProviderOptimizer interface that returns one candidate per call")
}
