package consumersess

// C28, concurrent mode: 4-16 real goroutines run rapid-drawn scripts against one
// ConsumerSessionManager (binary built with -race). Every call is bracketed by ledger updates:
// exclusivity, signed CU sum and relay numbers are checked at each acquisition; the provider's
// used CU is checked against an interval at every ledger update (what is certain vs. what
// executing calls may have added or removed) and against equality at the barriers between
// phases, when no call is executing but sessions are still in flight.

import (
	"context"
	"flag"
	"fmt"
	"os"
	"strings"
	"sync"
	"sync/atomic"
	"testing"
	"time"

	"github.com/lavanet/lava/v5/protocol/lavasession"
	"pgregory.net/rapid"

	"verifharness/internal/ev"
)

type cOp struct {
	Kind string   `json:"k"` // get | done | doneCU | fail | update | bumpVE
	G    getArgs  `json:"g,omitempty"`
	UP   int      `json:"up,omitempty"` // get: 0 fresh relay, 1 retry of the worker's last relay, 2/3 a relay shared by all workers
	Fail failKind `json:"fail,omitempty"`
	Idx  int      `json:"idx,omitempty"`
	Upd  []provSpec `json:"upd,omitempty"`
	Step uint64   `json:"step,omitempty"`
}

func (o cOp) String() string {
	switch o.Kind {
	case "get":
		return fmt.Sprintf("get(%s up=%d)", o.G, o.UP)
	case "fail":
		return fmt.Sprintf("fail(%s #%d)", failNames[o.Fail], o.Idx)
	case "update":
		return fmt.Sprintf("update(+%d %s)", o.Step, specString(o.Upd))
	default:
		return fmt.Sprintf("%s(#%d)", o.Kind, o.Idx)
	}
}

type cCase struct {
	Specs   []provSpec `json:"specs"`
	Workers int        `json:"workers"`
	Phases  [][][]cOp  `json:"phases"` // phase -> worker -> ops
	Final   []bool     `json:"final"`  // per worker: release leftovers by success (true) or failure
	Excluded int       `json:"-"`
}

func genConcCase(t *rapid.T) cCase {
	cc := cCase{}
	n := rapid.IntRange(3, 8).Draw(t, "nProviders")
	cc.Specs = genSpecs(t, "init", n, "p")
	cc.Workers = rapid.IntRange(4, 16).Draw(t, "workers")
	nPhases := rapid.IntRange(2, 3).Draw(t, "phases")
	updates := 0
	for p := 0; p < nPhases; p++ {
		phase := make([][]cOp, cc.Workers)
		for w := 0; w < cc.Workers; w++ {
			nOps := rapid.IntRange(3, 8).Draw(t, "nOps")
			for i := 0; i < nOps; i++ {
				op := cOp{}
				k := rapid.IntRange(0, 19).Draw(t, "op")
				switch {
				case w == 0 && k == 19 && updates < 2:
					updates++
					op.Kind = "update"
					op.Upd = genSpecs(t, "upd", rapid.IntRange(3, 8).Draw(t, "nUpd"), fmt.Sprintf("e%dp", updates))
					for j := range op.Upd {
						if j < len(cc.Specs) && rapid.Bool().Draw(t, "keepAddr") {
							// known finding: a multi-provider GetSessions that overlaps the epoch update loses the
							// session of an address present in both pairings. While it is listed, concurrent updates
							// install pairings with new addresses only.
							if ev.Excluded(findingEpochOverwrite) {
								cc.Excluded++
								continue
							}
							op.Upd[j].Addr = cc.Specs[j].Addr
						}
					}
					op.Step = uint64(rapid.SampledFrom([]int{1, 20}).Draw(t, "epochStep"))
				case w == 0 && k == 18:
					op.Kind = "bumpVE"
				case k < 9:
					op.Kind = "get"
					op.G = genGetArgs(t)
					op.UP = rapid.SampledFrom([]int{0, 0, 0, 1, 1, 2, 3}).Draw(t, "up")
				case k < 13:
					op.Kind, op.Idx = "done", rapid.IntRange(0, 3).Draw(t, "idx")
				case k < 14:
					op.Kind, op.Idx = "doneCU", rapid.IntRange(0, 3).Draw(t, "idx")
				default:
					op.Kind, op.Idx, op.Fail = "fail", rapid.IntRange(0, 3).Draw(t, "idx"), genFailKind(t)
				}
				phase[w] = append(phase[w], op)
			}
		}
		cc.Phases = append(cc.Phases, phase)
	}
	cc.Final = make([]bool, cc.Workers)
	for w := range cc.Final {
		cc.Final[w] = rapid.Bool().Draw(t, "finalSuccess")
	}
	return cc
}

func (cc cCase) fingerprint() string {
	var sb strings.Builder
	sb.WriteString("conc|" + specString(cc.Specs))
	for p, phase := range cc.Phases {
		for w, ops := range phase {
			fmt.Fprintf(&sb, "|p%dw%d:", p, w)
			for _, o := range ops {
				sb.WriteString(o.String() + ";")
			}
		}
	}
	return sb.String()
}

type cWorker struct {
	id   int
	held []*held
	last *upRec
}

type concRun struct {
	w        *world
	l        *ledger
	ve       atomic.Uint64
	shared   [2]atomic.Pointer[upRec]
	nUp      atomic.Int64
	blockSeq atomic.Int64 // ledger sequence number at the first executed block-provider failure (0 = none)
	acqAfter atomic.Int64
	getErrs  atomic.Int64
	updates  atomic.Int64
	harness  atomic.Pointer[string]
	nProv    int
}

func (r *concRun) newUP() *upRec {
	return &upRec{id: int(r.nUp.Add(1)), up: lavasession.NewUsedProviders(nil), returned: map[string]bool{}, nonU: map[string]bool{}}
}

func (r *concRun) harnessErr(format string, a ...any) {
	s := fmt.Sprintf(format, a...)
	r.harness.CompareAndSwap(nil, &s)
}

func (r *concRun) release(wk *cWorker, i int, kind string, fk failKind) {
	h := wk.held[i]
	wk.held = append(wk.held[:i], wk.held[i+1:]...)
	success := kind != "fail"
	r.l.beginRelease(wk.id, h, success)
	var err error
	switch kind {
	case "done":
		n := r.nProv
		err = r.w.csm.OnSessionDone(h.s, 30, h.cu+uint64(3*(i%2)), time.Millisecond, h.s.CalculateExpectedLatency(2*time.Millisecond), 1, n, uint64(n), false, nil)
	case "doneCU":
		err = r.w.csm.OnSessionDoneIncreaseCUOnly(h.s, 30)
	default:
		err = r.w.csm.OnSessionFailure(h.s, fk.err())
		if err == nil && (fk == failBlock || fk == failReportBlock) {
			r.blockSeq.CompareAndSwap(0, r.l.seq.Load()+1)
		}
	}
	r.l.endRelease(h, success)
	if err != nil {
		r.l.mu.Lock()
		r.l.violf("worker %d: %s on session %d of %s, which the worker holds, returned %v", wk.id, kind, h.s.SessionId, h.rec.prov.obj.spec.Addr, err)
		r.l.mu.Unlock()
	}
}

func (r *concRun) runOps(wk *cWorker, ops []cOp) {
	ctx := context.Background()
	for _, op := range ops {
		if r.harness.Load() != nil || r.l.abort.Load() {
			return
		}
		switch op.Kind {
		case "get":
			if len(wk.held) >= 3 {
				r.release(wk, 0, "done", failPlain)
				continue
			}
			var up *upRec
			switch {
			case op.UP == 1 && wk.last != nil:
				up = wk.last
			case op.UP >= 2:
				up = r.shared[op.UP-2].Load()
			default:
				up = r.newUP()
			}
			wk.last = up
			ve := r.ve.Load()
			r.l.beginAcquire(wk.id, op.G.CU, ve)
			res, err := r.w.csm.GetSessions(ctx, op.G.Wanted, op.G.CU, up.up, op.G.Block, op.G.Addon, op.G.extensions(), op.G.Stateful, ve, "", "")
			// upRec.returned is only used by the sequential oracle; do not touch shared maps here
			hs := r.l.endAcquire(wk.id, op.G.CU, res, nil)
			wk.held = append(wk.held, hs...)
			if err != nil {
				r.getErrs.Add(1)
			}
			if b := r.blockSeq.Load(); b != 0 {
				for _, h := range hs {
					if h.seq >= b {
						r.acqAfter.Add(1)
					}
				}
			}
		case "done", "doneCU", "fail":
			if len(wk.held) == 0 {
				continue
			}
			r.release(wk, op.Idx%len(wk.held), op.Kind, op.Fail)
		case "bumpVE":
			if r.ve.Load() < 2 {
				r.ve.Add(1)
			}
		case "update":
			epoch := r.w.epoch + op.Step
			objs, err := buildList(epoch, op.Upd)
			if err != nil {
				r.harnessErr("cannot connect pairing list: %v", err)
				return
			}
			r.l.addList(objs)
			if err := r.w.install(epoch, objs); err != nil {
				r.harnessErr("%v", err)
				return
			}
			r.ve.Store(0)
			r.updates.Add(1)
		}
	}
}

// runConcOnce executes the case once on a fresh manager and returns the violations found.
func runConcOnce(cc cCase) (viol []string, harness string, r *concRun) {
	r = &concRun{w: newWorld(), l: newLedger(), nProv: len(cc.Specs)}
	defer r.w.shutdown()
	objs, err := buildList(20, cc.Specs)
	if err != nil {
		return nil, fmt.Sprintf("cannot connect pairing list: %v", err), r
	}
	r.l.addList(objs)
	if err := r.w.install(20, objs); err != nil {
		return nil, err.Error(), r
	}
	r.w.opt.setSeed(uint64(cc.Workers)*7919+uint64(len(cc.Specs)), nil)
	r.shared[0].Store(r.newUP())
	r.shared[1].Store(r.newUP())
	workers := make([]*cWorker, cc.Workers)
	for i := range workers {
		workers[i] = &cWorker{id: i}
	}
	for _, phase := range cc.Phases {
		var wg sync.WaitGroup
		for i, wk := range workers {
			wg.Add(1)
			go func(wk *cWorker, ops []cOp) {
				defer wg.Done()
				r.runOps(wk, ops)
			}(wk, phase[i])
		}
		wg.Wait()
		if r.l.abort.Load() {
			return r.l.violations(), "", r
		}
		// barrier: nothing executes, sessions may still be in flight
		r.l.exact()
		// relays that are shared by all workers are replaced so that they do not fill up
		r.shared[0].Store(r.newUP())
		r.shared[1].Store(r.newUP())
		if h := r.harness.Load(); h != nil {
			return r.l.violations(), *h, r
		}
		if r.l.abort.Load() {
			return r.l.violations(), "", r
		}
		if v := r.l.violations(); len(v) > 0 {
			return v, "", r
		}
	}
	// drain: every worker ends its relays, concurrently
	var wg sync.WaitGroup
	for i, wk := range workers {
		wg.Add(1)
		go func(wk *cWorker, success bool) {
			defer wg.Done()
			for len(wk.held) > 0 {
				if success {
					r.release(wk, 0, "done", failPlain)
				} else {
					r.release(wk, 0, "fail", failPlain)
				}
			}
		}(wk, cc.Final[i])
	}
	wg.Wait()
	r.l.exact()
	r.l.mu.Lock()
	for _, pr := range r.l.order {
		if pr.inflight != 0 {
			r.l.violf("harness: in-flight CU left after drain")
		}
	}
	r.l.mu.Unlock()
	for _, e := range r.w.updateErrors() {
		r.l.mu.Lock()
		r.l.violf("UpdateAllProviders to a newer epoch returned %v", e)
		r.l.mu.Unlock()
	}
	return r.l.violations(), "", r
}

func propC28Conc(t *rapid.T) {
	tok := beginCase()
	defer tok.end()
	c := ev.For("C28")
	cc := genConcCase(t)
	reps := 1
	if f := flag.Lookup("rapid.failfile"); f != nil && f.Value.String() != "" {
		reps = 50 // replay of a schedule-dependent failure: same scripts, up to 50 schedules
	}
	var r *concRun
	for i := 0; i < reps; i++ {
		var viol []string
		var harness string
		viol, harness, r = runConcOnce(cc)
		if harness != "" {
			t.Fatalf("%s", ev.HarnessError("%s", harness))
		}
		if h := harnessOnly(viol); h != "" {
			t.Fatalf("%s", ev.HarnessError("%s", h))
		}
		if len(viol) > 0 {
			t.Fatalf("%s", ev.Violation("C28", "concurrent mode, %d workers, providers %s:\n%s\nscripts: %s", cc.Workers, specString(cc.Specs), strings.Join(viol, "\n"), cc.fingerprint()))
		}
	}
	nontrivial := r.blockSeq.Load() != 0 && r.acqAfter.Load() > 0
	classes := []string{"mode:concurrent"}
	switch {
	case cc.Workers < 8:
		classes = append(classes, "workers:4-7")
	case cc.Workers < 12:
		classes = append(classes, "workers:8-11")
	default:
		classes = append(classes, "workers:12-16")
	}
	if nontrivial {
		classes = append(classes, "block-failure-then-acquisitions")
	}
	if r.updates.Load() > 0 {
		classes = append(classes, "epoch-update-while-relays-run")
	}
	if r.getErrs.Load() > 0 {
		classes = append(classes, "getsessions-error")
	}
	if r.l.nReuse > 0 {
		classes = append(classes, "session-reused")
	}
	tok.done = true
	if cc.Excluded > 0 {
		c.Exclude(findingEpochOverwrite)
	}
	c.Case(nontrivial, cc.fingerprint(), classes...)
	c.AddExtra("ledger_interval_checks", r.l.nIntervalChecks)
	c.AddExtra("ledger_exact_checks", r.l.nExactChecks)
	c.AddExtra("acquisitions", r.l.nAcq)
	c.AddExtra("concurrent_acquisitions", r.l.nAcq)
	c.ClauseN("used-cu-equals-completed-plus-inflight", r.l.nExactChecks)
	c.ClauseN("used-cu-within-certain-and-executing-bounds", r.l.nIntervalChecks)
	c.ClauseN("used-cu-within-max-times-virtual-epoch", r.l.nExactChecks+r.l.nIntervalChecks)
	c.ClauseN("session-exclusive+cusum+relaynum-at-acquisition", r.l.nAcq)
	if nontrivial {
		c.Sample(map[string]any{"mode": "concurrent", "workers": cc.Workers, "providers": specString(cc.Specs), "phases": len(cc.Phases)})
	}
}

func TestC28Conc(t *testing.T) {
	setRule()
	if casesAborted.Load() > 0 {
		t.Skip("a sequential case already failed; the concurrent mode is not run on top of a reported violation")
	}
	rapid.Check(t, propC28Conc)
}

// TestC28Replay is what `./check C28 --replay <log>` runs for a finding that has no rapid fail file
// (a race-detector report on the used-CU counter): the concurrent mode is run again for 200 cases
// with a fixed seed and the race reports are scanned again by TestMain.
func TestC28Replay(t *testing.T) {
	if os.Getenv("VERIF_REPLAY") == "" {
		t.Skip("only used by ./check C28 --replay")
	}
	setRule()
	_ = flag.Set("rapid.seed", "280028")
	_ = flag.Set("rapid.checks", "200")
	rapid.Check(t, propC28Conc)
}
