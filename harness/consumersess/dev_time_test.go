package consumersess

import (
	"fmt"
	"testing"
	"time"
)

func TestDevTime(t *testing.T) {
	specs := []provSpec{}
	for i := 0; i < 6; i++ {
		specs = append(specs, provSpec{Addr: fmt.Sprintf("lava@p%d", i), MaxCU: 100})
	}
	for k := 0; k < 5; k++ {
		t0 := time.Now()
		objs, err := buildList(20, specs)
		if err != nil {
			t.Fatal(err)
		}
		t1 := time.Now()
		w := newWorld()
		if err := w.install(20, objs); err != nil {
			t.Fatal(err)
		}
		t2 := time.Now()
		w.shutdown()
		fmt.Println("build", t1.Sub(t0), "install", t2.Sub(t1), "shutdown", time.Since(t2))
	}
}
