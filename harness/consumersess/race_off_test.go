//go:build !race

package consumersess

const raceEnabled = false
