package consumersess

import (
	"fmt"
	"os"
	"path/filepath"
	"regexp"
	"sort"
	"strings"
	"sync/atomic"
	"syscall"
	"testing"

	"verifharness/internal/ev"
)

// The unchanged repository has data races that the race detector reports in these modes and that
// are outside C28 (a metrics goroutine reads session fields after the session was freed; log
// attributes read manager lists without the lock; the stateful selection sorts a shared address
// slice in place under the read lock; the used-CU counter is written under the provider lock but
// read with an atomic load). The binary is still built with -race because the detector is the only
// reliable observer of the mechanism the property names first: used CU must only change under the
// provider lock. So:
//   - the process re-executes itself once with GORACE pointing at a report file and a suppression
//     list for the three frequent pre-existing races (only to keep the run fast);
//   - after the tests, the reports are scanned: a race on the used-CU counter between
//     addUsedComputeUnits / decreaseUsedComputeUnits / validateComputeUnits and any other plain
//     access is a C28 violation (a lost update makes used CU differ from completed + in-flight in
//     some schedule); every other report is counted in the evidence and otherwise ignored, and
//     the "race detected during execution of test" failure it causes is cleared when all
//     properties passed.

// caseGuard counts property evaluations and those that did not run to their end (violation,
// harness error, panic): use `defer caseGuard()()` at the top of a property and call the returned
// function's effect by letting the property return normally.
var (
	casesEvaluated atomic.Int64
	casesAborted   atomic.Int64
)

type caseToken struct{ done bool }

func beginCase() *caseToken {
	casesEvaluated.Add(1)
	return &caseToken{}
}

func (c *caseToken) end() {
	if !c.done {
		casesAborted.Add(1)
	}
}

const raceChildEnv = "VERIF_C28_RACE_DIR"

var raceSuppressions = []string{
	"race:updateMetricsManager.func1",
	"race:sortBlockedProviderListByCuServed",
	"race:getTopTenProvidersForStatefulCalls",
}

func reexecWithRaceLog() {
	if !raceEnabled || os.Getenv(raceChildEnv) != "" {
		return
	}
	exe, err := os.Executable()
	if err != nil {
		return
	}
	dir, err := os.MkdirTemp("", "c28-race-")
	if err != nil {
		return
	}
	supp := filepath.Join(dir, "supp.txt")
	if err := os.WriteFile(supp, []byte(strings.Join(raceSuppressions, "\n")+"\n"), 0o644); err != nil {
		return
	}
	gorace := strings.TrimSpace(os.Getenv("GORACE") + " suppressions=" + supp + " log_path=" + filepath.Join(dir, "race") + " halt_on_error=0 print_suppressions=0 exitcode=0")
	env := []string{}
	for _, e := range os.Environ() {
		if !strings.HasPrefix(e, "GORACE=") {
			env = append(env, e)
		}
	}
	env = append(env, "GORACE="+gorace, raceChildEnv+"="+dir)
	_ = syscall.Exec(exe, os.Args, env) // only returns on error; then run without the report file
	_ = os.RemoveAll(dir)
}

var (
	reAccess = regexp.MustCompile(`(?m)^(Previous )?([Rr]ead|[Ww]rite|[Aa]tomic [a-z]+) at 0x[0-9a-f]+ by `)
	reFrame  = regexp.MustCompile(`(?m)^  (\S.*)\(\)\n      (\S+):(\d+)`)
)

var cuCounterFuncs = []string{
	"lavasession.(*ConsumerSessionsWithProvider).addUsedComputeUnits",
	"lavasession.(*ConsumerSessionsWithProvider).decreaseUsedComputeUnits",
	"lavasession.(*ConsumerSessionsWithProvider).validateComputeUnits",
}

// scanRaceReports returns the reports that touch the used-CU counter and a histogram of the others.
func scanRaceReports(dir string) (critical []string, others map[string]int, total int) {
	others = map[string]int{}
	files, _ := filepath.Glob(filepath.Join(dir, "race.*"))
	for _, f := range files {
		b, err := os.ReadFile(f)
		if err != nil {
			continue
		}
		for _, rep := range strings.Split(string(b), "==================") {
			if !strings.Contains(rep, "WARNING: DATA RACE") {
				continue
			}
			total++
			// split into the two access stacks (goroutine creation stacks follow after a blank line + "Goroutine")
			body := rep
			if i := strings.Index(body, "\nGoroutine "); i >= 0 {
				body = body[:i]
			}
			idx := reAccess.FindAllStringIndex(body, -1)
			var tops []string
			for k, loc := range idx {
				end := len(body)
				if k+1 < len(idx) {
					end = idx[k+1][0]
				}
				m := reFrame.FindStringSubmatch(body[loc[0]:end])
				if m != nil {
					tops = append(tops, m[1])
				} else {
					tops = append(tops, "?")
				}
			}
			if len(tops) < 2 {
				others["unparsed"]++
				continue
			}
			isCU := func(fn string) bool {
				for _, c := range cuCounterFuncs {
					if strings.HasSuffix(fn, c) {
						return true
					}
				}
				return false
			}
			isAtomic := func(fn string) bool { return strings.HasPrefix(fn, "sync/atomic.") }
			if (isCU(tops[0]) && !isAtomic(tops[1])) || (isCU(tops[1]) && !isAtomic(tops[0])) {
				if len(critical) < 3 {
					critical = append(critical, strings.TrimSpace(body))
				}
				continue
			}
			short := func(fn string) string {
				if i := strings.LastIndex(fn, "/"); i >= 0 {
					fn = fn[i+1:]
				}
				return fn
			}
			pair := []string{short(tops[0]), short(tops[1])}
			sort.Strings(pair)
			others[pair[0]+" <-> "+pair[1]]++
		}
	}
	return critical, others, total
}

func TestMain(m *testing.M) {
	reexecWithRaceLog()
	if err := startInfra(); err != nil {
		fmt.Println(ev.HarnessError("consumersess: cannot start the loopback relayer stub: %v", err))
		os.Exit(1)
	}
	code := m.Run()
	if dir := os.Getenv(raceChildEnv); raceEnabled && dir != "" {
		critical, others, total := scanRaceReports(dir)
		c := ev.For("C28")
		c.SetExtra("race_detector", "on")
		c.SetExtra("race_reports_total", total)
		c.SetExtra("race_reports_on_used_cu_counter", len(critical))
		if len(others) > 0 {
			c.SetExtra("race_reports_outside_c28", others)
		}
		switch {
		case len(critical) > 0:
			fmt.Printf("%s\n", ev.Violation("C28", "the race detector saw the used-CU counter of a provider accessed concurrently without the provider lock (addUsedComputeUnits/decreaseUsedComputeUnits/validateComputeUnits must serialise on it); under some schedule an update is lost and UsedComputeUnits differs from completed + in-flight CU:\n%s", strings.Join(critical, "\n---\n")))
			code = 1
		case code != 0 && total > 0 && casesEvaluated.Load() > 0 && casesAborted.Load() == 0:
			fmt.Printf("[consumersess] every C28 property passed; the test failure above is only the race detector's mark for %d data-race report(s) in code outside C28 (listed in the evidence as race_reports_outside_c28); exit status cleared\n", total)
			code = 0
		}
		_ = os.RemoveAll(dir)
	}
	ev.Flush()
	stopInfra()
	os.Exit(code)
}
