package consumersess

import (
	"fmt"
	"os"
	"testing"

	"verifharness/internal/ev"
)

func TestMain(m *testing.M) {
	if err := startInfra(); err != nil {
		fmt.Println(ev.HarnessError("consumersess: cannot start the loopback relayer stub: %v", err))
		os.Exit(1)
	}
	code := m.Run()
	ev.Flush()
	stopInfra()
	os.Exit(code)
}
