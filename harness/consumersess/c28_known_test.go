package consumersess

// Deterministic witness of a defect the concurrent mode found on the unchanged tree.
//
// GetSessions collects its result in a map keyed by provider address. When a request for
// several providers has acquired provider A from the pairing of epoch E, then has to "fetch more"
// (another provider of its first selection ran out of CU in the meantime) and UpdateAllProviders
// installed epoch E+1 in between, the manager forgets the providers it already used (new epoch,
// new list) and may select address A again from the new pairing: sessions[A] is overwritten.
// The session acquired first is never returned to the caller: it stays locked for ever and its
// CU stays reserved in UsedComputeUnits of the epoch-E entry although no relay holds it.
//
// The interleaving is produced without goroutines: the ProviderOptimizer interface is called by
// GetSessions right after the first acquisition (GetReputationReportForProvider); the stand-in
// performs, at that point, what another goroutine could do there: a relay that takes the
// remaining CU of the other selected provider, and the pairing update.

import (
	"context"
	"testing"
	"time"

	"github.com/lavanet/lava/v5/protocol/lavasession"
	pairingtypes "github.com/lavanet/lava/v5/x/pairing/types"

	"verifharness/internal/ev"
)

const findingEpochOverwrite = "c28-epoch-change-session-overwrite"

type hookOptimizer struct {
	mockOptimizer
	onReputation func(provider string)
}

func (o *hookOptimizer) GetReputationReportForProvider(p string) (*pairingtypes.QualityOfServiceReport, time.Time) {
	if f := o.onReputation; f != nil {
		o.onReputation = nil
		f(p)
	}
	return nil, time.Time{}
}

func TestC28Known_epochChangeOverwritesSession(t *testing.T) {
	opt := &hookOptimizer{}
	endpoint := &lavasession.RPCEndpoint{NetworkAddress: "stub", ChainID: "stub", ApiInterface: "stub", Geolocation: 0}
	csm := lavasession.NewConsumerSessionManager(endpoint, opt, nil, "lava@consumer", lavasession.NewActiveSubscriptionProvidersStorage())
	w := &world{csm: csm, opt: &opt.mockOptimizer, errCh: make(chan error, 8)}
	defer w.shutdown()
	l := newLedger()
	specs := []provSpec{{Addr: "lava@a", MaxCU: 20}, {Addr: "lava@b", MaxCU: 20}}
	old, err := buildList(20, specs)
	if err != nil {
		t.Fatalf("%s", ev.HarnessError("%v", err))
	}
	l.addList(old)
	if err := w.install(20, old); err != nil {
		t.Fatalf("%s", ev.HarnessError("%v", err))
	}
	ctx := context.Background()
	var nested []*held
	opt.onReputation = func(first string) {
		// "another goroutine", scheduled right after the request acquired its first provider:
		other := "lava@a"
		if first == other {
			other = "lava@b"
		}
		// 1. a relay takes most CU of the other provider of the request's selection (15 of 20: the
		//    request's own 10 CU no longer fit; no exact-fit boundary is involved)
		opt.setSeed(1, map[string]bool{other: true})
		l.beginAcquire(1, 15, 0)
		res, _ := csm.GetSessions(ctx, 1, 15, lavasession.NewUsedProviders(nil), 1, "", nil, 0, 0, "", "")
		nested = l.endAcquire(1, 15, res, nil)
		// 2. the pairing of the next epoch arrives; it contains the same two providers
		fresh, err := buildList(40, specs)
		if err != nil {
			t.Fatalf("%s", ev.HarnessError("%v", err))
		}
		l.addList(fresh)
		if err := w.install(40, fresh); err != nil {
			t.Fatalf("%s", ev.HarnessError("%v", err))
		}
		opt.setSeed(1, map[string]bool{first: true}) // the new selection starts with the address already acquired
	}
	l.beginAcquire(0, 10, 0)
	res, err := csm.GetSessions(ctx, 2, 10, lavasession.NewUsedProviders(nil), 1, "", nil, 0, 0, "", "")
	hs := l.endAcquire(0, 10, res, nil)
	if err != nil || len(nested) != 1 {
		t.Fatalf("%s", ev.HarnessError("witness set-up did not run as planned: err=%v nested=%d", err, len(nested)))
	}
	// end every relay that was handed out
	for _, h := range append(hs, nested...) {
		worker := 0
		if h == nested[0] {
			worker = 1
		}
		l.beginRelease(worker, h, true)
		if err := csm.OnSessionDoneIncreaseCUOnly(h.s, 1); err != nil {
			t.Fatalf("%s", ev.Violation("C28", "OnSessionDoneIncreaseCUOnly on a held session returned %v", err))
		}
		l.endRelease(h, true)
	}
	l.exact()
	if v := l.violations(); len(v) > 0 {
		t.Fatalf("%s", ev.Violation("C28", "GetSessions(2 providers) overlapping an epoch update: a session acquired from the old pairing is overwritten in the result map by the same address of the new pairing; it stays locked and its CU stays reserved although no relay holds it:\n%s", joinLines(v)))
	}
}

func joinLines(v []string) string {
	out := ""
	for i, s := range v {
		if i > 0 {
			out += "\n"
		}
		out += s
	}
	return out
}
