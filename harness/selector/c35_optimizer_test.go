package selector

import (
	"context"
	"fmt"
	"math"
	"sync"
	"time"

	"github.com/lavanet/lava/v5/protocol/provideroptimizer"
	"pgregory.net/rapid"

	"verifharness/internal/ev"
)

// ---- C35 at ProviderOptimizer level: ChooseProvider / ChooseBestProvider ----------------------

var (
	poolMu sync.Mutex
	pool   = map[int]*provideroptimizer.ProviderOptimizer{}
)

// optimizerFor returns a per-strategy optimizer, reset to a clean state (ristretto caches and
// their goroutines cannot be released, so optimizers are reused across cases).
func optimizerFor(strategy int) *provideroptimizer.ProviderOptimizer {
	poolMu.Lock()
	defer poolMu.Unlock()
	po, ok := pool[strategy]
	if !ok {
		po = provideroptimizer.NewProviderOptimizer(provideroptimizer.Strategy(strategy), 10*time.Second, 1, nil, "verif")
		pool[strategy] = po
	}
	po.ResetState()
	return po
}

type relaySample struct {
	Kind      string `json:"kind"` // relay | fail | probe | probefail
	LatencyMs int    `json:"latency_ms"`
	SyncBlock uint64 `json:"sync_block"`
	Cu        uint64 `json:"cu"`
}

var caseCounter int

func propOptimizerLevel(t *rapid.T, c *ev.Collector) {
	cfg := genConfig(t)
	cfg.AdaptiveLat, cfg.AdaptiveSync = false, false // the optimizer wires its own adaptive bounds
	po := optimizerFor(cfg.Strategy)
	poolMu.Lock()
	caseCounter++
	tag := caseCounter
	poolMu.Unlock()
	clock := time.Date(2024, 5, 1, 1, 1, 1, 0, time.UTC)
	po.NowFunc = func() time.Time { return clock }
	po.ConfigureWeightedSelector(cfg.build())
	seed := int64(uni(t, "rngSeed", 1<<20)) + 1
	po.SetDeterministicSeed(seed)

	n := 1 + uni(t, "nProviders", 10)
	ignoreRate := pick(t, "ignoreRate", []int{0, 0, 0, 20, 20, 50, 50, 100})
	type prov struct {
		Addr    string
		Stake   int64
		Ignored bool
		Samples []relaySample
	}
	provs := make([]prov, n)
	stakes := map[string]int64{}
	var all []string
	ignored := map[string]struct{}{}
	var allowed []string
	for i := range provs {
		// addresses are unique per case so that leftovers of the asynchronous caches cannot interfere
		p := prov{Addr: fmt.Sprintf("lava@c%d_p%02d", tag, i), Stake: genStake(t, "stake"), Ignored: uni(t, "ignored", 100) < ignoreRate}
		for s := uni(t, "nSamples", 5); s > 0; s-- {
			p.Samples = append(p.Samples, relaySample{
				Kind:      pick(t, "sampleKind", []string{"relay", "relay", "relay", "fail", "probe", "probefail"}),
				LatencyMs: 1 + uni(t, "latMs", 3000),
				SyncBlock: uint64(1000 + uni(t, "syncBlock", 50)),
				Cu:        uint64(1 + uni(t, "cu", 100)),
			})
		}
		provs[i] = p
		all = append(all, p.Addr)
		if uni(t, "stakeKnown", 5) != 0 {
			stakes[p.Addr] = p.Stake
		}
		if p.Ignored {
			ignored[p.Addr] = struct{}{}
		} else {
			allowed = append(allowed, p.Addr)
		}
	}
	po.UpdateWeights(stakes, 1)
	for _, p := range provs {
		for _, s := range p.Samples {
			clock = clock.Add(50 * time.Millisecond)
			switch s.Kind {
			case "relay":
				po.AppendRelayData(p.Addr, time.Duration(s.LatencyMs)*time.Millisecond, s.Cu, s.SyncBlock)
			case "fail":
				po.AppendRelayFailure(p.Addr)
			case "probe":
				po.AppendProbeRelayData(p.Addr, time.Duration(s.LatencyMs)*time.Millisecond, true)
			case "probefail":
				po.AppendProbeRelayData(p.Addr, 0, false)
			}
		}
	}
	time.Sleep(6 * time.Millisecond) // the optimizer's caches apply writes asynchronously
	clock = clock.Add(time.Second)
	desc := func() string {
		return fmt.Sprintf("seed=%d config=%+v ignored=%v providers=%+v", seed, cfg, ignored, provs)
	}
	allowedSet := map[string]bool{}
	for _, a := range allowed {
		allowedSet[a] = true
	}
	ctx := context.Background()
	draws := 400
	if len(allowed) <= 1 {
		draws = 20
	}
	counts := map[string]int{}
	var weights map[string]float64
	stable := true
	for i := 0; i < draws; i++ {
		var sel []string
		var stats *provideroptimizer.SelectionStats
		if i%2 == 0 {
			sel, stats = po.ChooseProviderWithStats(ctx, all, ignored, 10, -2)
		} else {
			sel, stats = po.ChooseBestProviderWithStats(ctx, all, ignored, 10, -2)
		}
		if len(allowed) == 0 {
			if len(sel) != 0 {
				t.Fatalf("%s", ev.Violation("C35", "optimizer selected %v although every candidate is ignored\n%s", sel, desc()))
			}
			continue
		}
		// every candidate has (at least default) QoS data in the optimizer
		if len(sel) != 1 {
			t.Fatalf("%s", ev.Violation("C35", "optimizer returned %d providers (%v) although %d non-ignored candidates have QoS data\n%s", len(sel), sel, len(allowed), desc()))
		}
		if !allowedSet[sel[0]] {
			t.Fatalf("%s", ev.Violation("C35", "optimizer selected %q which is not in candidates minus ignored %v\n%s", sel[0], allowed, desc()))
		}
		if stats == nil {
			t.Fatalf("%s", ev.Violation("C35", "optimizer returned a provider without selection stats\n%s", desc()))
		}
		cur := map[string]float64{}
		for _, d := range stats.ProviderScores {
			c.Clause("weight-within-min-chance-and-one")
			if !allowedSet[d.Address] {
				t.Fatalf("%s", ev.Violation("C35", "score computed for %q which is ignored or not a candidate\n%s", d.Address, desc()))
			}
			if math.IsNaN(d.Composite) || d.Composite < cfg.MinChance || d.Composite > 1 {
				t.Fatalf("%s", ev.Violation("C35", "composite score %v of %s outside [%v,1]\n%s", d.Composite, d.Address, cfg.MinChance, desc()))
			}
			cur[d.Address] = d.Composite
		}
		if len(cur) != len(allowed) {
			t.Fatalf("%s", ev.Violation("C35", "scores for %d providers, %d candidates are not ignored\n%s", len(cur), len(allowed), desc()))
		}
		if weights == nil {
			weights = cur
		} else {
			for a, w := range cur {
				if weights[a] != w {
					stable = false // late cache write: weights moved between draws, frequency clause does not apply
				}
			}
		}
		counts[sel[0]]++
	}
	c.ClauseN("selected-from-candidates-minus-ignored", draws)
	if len(allowed) > 0 {
		c.ClauseN("selects-one-when-some-candidate-has-qos", draws)
	}
	classes := []string{"level:optimizer", "eligible:" + bucket(len(allowed)), "strategy:" + provideroptimizer.Strategy(cfg.Strategy).String()}
	if len(allowed) < n {
		classes = append(classes, "some-ignored-or-without-qos")
	}
	if len(allowed) == 0 {
		classes = append(classes, "none-eligible")
	}
	if stable {
		checkFrequencies(t, c, "ProviderOptimizer.ChooseProvider/ChooseBestProvider", counts, weights, draws, desc)
	} else {
		classes = append(classes, "optimizer:weights-moved-between-draws")
	}

	// stake improvement never lowers the weight
	if stable && len(allowed) > 0 {
		target := pick(t, "monoTarget", allowed)
		cur := int64(1) // default stake of the stake cache
		if s, ok := stakes[target]; ok {
			cur = s
		}
		add := int64(1 + uni(t, "stakeAdd", 1_000_000))
		if uni(t, "stakeAddBig", 3) == 0 {
			add *= 1_000_000
		}
		po.UpdateWeights(map[string]int64{target: cur + add}, 2)
		_, stats := po.ChooseProviderWithStats(ctx, all, ignored, 10, -2)
		if stats != nil {
			for _, d := range stats.ProviderScores {
				if d.Address == target {
					c.Clause("weight-monotone-in-stake")
					if d.Composite < weights[target]-monoEps {
						t.Fatalf("%s", ev.Violation("C35", "raising the stake of %s from %d to %d lowered its weight from %.17g to %.17g\n%s", target, cur, cur+add, weights[target], d.Composite, desc()))
					}
				}
			}
		}
		classes = append(classes, "mono:stake")
	}
	distinct := map[float64]bool{}
	for _, w := range weights {
		distinct[w] = true
	}
	nontrivial := len(weights) >= 3 && len(distinct) >= 2
	c.Case(nontrivial, desc(), classes...)
}
