package selector

import (
	"context"
	"fmt"
	"math"
	"sort"
	"sync"
	"testing"
	"time"

	"github.com/lavanet/lava/v5/protocol/provideroptimizer"
	"github.com/lavanet/lava/v5/utils"
	"github.com/lavanet/lava/v5/utils/score"
	pairingtypes "github.com/lavanet/lava/v5/x/pairing/types"
	"pgregory.net/rapid"

	"verifharness/internal/ev"
)

// ---- C35: weighted provider selection is fair and well-formed -------------------------------

const (
	// per-comparison false-alarm bound of the frequency clause (Bernstein inequality, two-sided)
	freqDelta = 1e-12
	monoEps   = 1e-12 // float slack of the monotonicity clause (math.Pow is not correctly rounded)
)

var logOnce sync.Once

func quietLogs() {
	logOnce.Do(func() { utils.SetGlobalLoggingLevel("fatal") })
}

// uni draws an integer in [0,n) near-uniformly (rapid's integer generators favour small values).
func uni(t *rapid.T, label string, n int) int {
	if n <= 1 {
		return 0
	}
	v := 0
	for _, b := range rapid.SliceOfN(rapid.Bool(), 20, 20).Draw(t, label) {
		v <<= 1
		if b {
			v |= 1
		}
	}
	return v % n
}

func unit(t *rapid.T, label string) float64 { return float64(uni(t, label, 1<<20)) / float64(1<<20) }

func pick[T any](t *rapid.T, label string, from []T) T { return from[uni(t, label, len(from))] }

type provider struct {
	Addr    string  `json:"addr"`
	HasQoS  bool    `json:"has_qos"`
	Avail   float64 `json:"availability"`
	Latency float64 `json:"latency_s"`
	Sync    float64 `json:"sync_s"`
	Stake   int64   `json:"stake"`
	Ignored bool    `json:"ignored"`
}

type selectorConfig struct {
	Weights      [4]float64 `json:"weights_avail_lat_sync_stake"`
	MinChance    float64    `json:"min_selection_chance"`
	Strategy     int        `json:"strategy"`
	AdaptiveLat  bool       `json:"adaptive_latency"`
	LatP10       float64    `json:"lat_p10"`
	LatP90       float64    `json:"lat_p90"`
	AdaptiveSync bool       `json:"adaptive_sync"`
	SyncP10      float64    `json:"sync_p10"`
	SyncP90      float64    `json:"sync_p90"`
}

func (c selectorConfig) build() provideroptimizer.WeightedSelectorConfig {
	cfg := provideroptimizer.WeightedSelectorConfig{
		AvailabilityWeight: c.Weights[0], LatencyWeight: c.Weights[1], SyncWeight: c.Weights[2], StakeWeight: c.Weights[3],
		MinSelectionChance: c.MinChance, Strategy: provideroptimizer.Strategy(c.Strategy),
	}
	if c.AdaptiveLat {
		p10, p90 := c.LatP10, c.LatP90
		cfg.UseAdaptiveLatencyMax = true
		cfg.AdaptiveLatencyGetter = func() (float64, float64) { return p10, p90 }
	}
	if c.AdaptiveSync {
		p10, p90 := c.SyncP10, c.SyncP90
		cfg.UseAdaptiveSyncMax = true
		cfg.AdaptiveSyncGetter = func() (float64, float64) { return p10, p90 }
	}
	return cfg
}

func genConfig(t *rapid.T) selectorConfig {
	var c selectorConfig
	switch uni(t, "weightKind", 6) {
	case 0, 1:
		c.Weights = [4]float64{0.3, 0.3, 0.2, 0.2}
	case 2: // not normalised, some zero
		for i := range c.Weights {
			c.Weights[i] = pick(t, "w", []float64{0, 0, 0.1, 0.5, 1, 3})
		}
	case 3: // single metric
		c.Weights[uni(t, "wOnly", 4)] = 1
	case 4: // invalid -> the selector falls back to defaults
		c.Weights = [4]float64{0.3, pick(t, "wBad", []float64{-1, math.NaN(), math.Inf(1)}), 0.2, 0.2}
	default:
		for i := range c.Weights {
			c.Weights[i] = unit(t, "wU")
		}
	}
	c.MinChance = pick(t, "minChance", []float64{0, 0.001, 0.01, 0.01, 0.05, 0.2, 0.5, 1})
	c.Strategy = uni(t, "strategy", 7)
	if uni(t, "adaptLat", 2) == 0 {
		c.AdaptiveLat = true
		switch uni(t, "adaptLatKind", 6) {
		case 0: // invalid bounds -> fixed-max fallback
			bad := pick(t, "badLat2", [][2]float64{{0, 1}, {2, 1}, {1, 1}, {math.NaN(), 3}, {-1, 2}, {0.5, math.Inf(1)}})
			c.LatP10, c.LatP90 = bad[0], bad[1]
		default:
			c.LatP10 = score.AdaptiveP10MinBound + unit(t, "latP10")*2
			c.LatP90 = c.LatP10 + 0.001 + unit(t, "latP90")*(score.DefaultLatencyAdaptiveMaxMax-c.LatP10)
		}
	}
	if uni(t, "adaptSync", 2) == 0 {
		c.AdaptiveSync = true
		switch uni(t, "adaptSyncKind", 6) {
		case 0:
			bad := pick(t, "badSync", [][2]float64{{0, 1}, {20, 10}, {5, 5}, {math.NaN(), 3}, {-1, 2}})
			c.SyncP10, c.SyncP90 = bad[0], bad[1]
		default:
			c.SyncP10 = score.AdaptiveSyncP10MinBound + unit(t, "syncP10")*60
			c.SyncP90 = c.SyncP10 + 0.01 + unit(t, "syncP90")*(score.DefaultSyncAdaptiveMaxMax-c.SyncP10)
		}
	}
	return c
}

func validBounds(p10, p90 float64) bool {
	return !(math.IsNaN(p10) || math.IsNaN(p90) || math.IsInf(p10, 0) || math.IsInf(p90, 0) || p10 <= 0 || p90 <= 0 || p90 <= p10)
}

// rawFromQuality maps a target quality q in [0,1] (1 = best) to a raw "lower is better" value for
// the range the selector will use, so that interesting normalised values (0, 0.7, 1) are reached
// whatever the bounds are. It is only a generator aid, never part of the oracle.
func rawFromQuality(q float64, adaptive bool, p10, p90, worst float64) float64 {
	if adaptive && validBounds(p10, p90) {
		return p10 + (1-q)*(p90-p10)
	}
	return (1 - q) * worst
}

func genQuality(t *rapid.T, label string) float64 {
	switch uni(t, label+"Kind", 8) {
	case 0:
		return 1
	case 1:
		return 0
	case 2: // around the strategy threshold 0.7
		return 0.7 + (unit(t, label+"Near")-0.5)*0.1
	case 3:
		return 0.7
	default:
		return unit(t, label+"U")
	}
}

func genAvailability(t *rapid.T, label string) float64 {
	thr := score.MinAcceptableAvailability
	switch uni(t, label+"Kind", 8) {
	case 0:
		return 1
	case 1:
		return 0
	case 2:
		return thr
	case 3:
		return thr + (unit(t, label+"Near")-0.5)*0.02
	case 4:
		return unit(t, label+"Low") * thr
	default:
		return thr + unit(t, label+"U")*(1-thr)
	}
}

func genStake(t *rapid.T, label string) int64 {
	switch uni(t, label+"Kind", 6) {
	case 0:
		return 0
	case 1:
		return 1
	case 2:
		return int64(1 + uni(t, label+"Small", 1000))
	case 3:
		return int64(1_000_000_000_000) * int64(1+uni(t, label+"Whale", 1000)) // up to 1e15 ulava
	default:
		return int64(1_000_000) * int64(1+uni(t, label+"Mid", 100000))
	}
}

func genProviders(t *rapid.T, cfg selectorConfig) []provider {
	n := 1 + uni(t, "nProviders", 12)
	out := make([]provider, n)
	noQoS := pick(t, "noQoSRate", []int{0, 0, 0, 0, 0, 0, 0, 0, 10, 10, 10, 30, 30, 30, 60, 100})
	ignoreRate := pick(t, "ignoreRate", []int{0, 0, 0, 0, 0, 0, 10, 10, 10, 30, 30, 30, 30, 60, 60, 100})
	sameQoS := uni(t, "sameQoS", 8) == 0
	allBad := uni(t, "allBad", 10) == 0 // every provider at the bottom of every metric: weights are 0 or the minimum chance
	for i := range out {
		p := provider{Addr: fmt.Sprintf("lava@p%02d", i)}
		p.HasQoS = uni(t, "hasQoS", 100) >= noQoS
		p.Ignored = uni(t, "ignored", 100) < ignoreRate
		if sameQoS && i > 0 {
			p.Avail, p.Latency, p.Sync = out[0].Avail, out[0].Latency, out[0].Sync
		} else {
			p.Avail = genAvailability(t, "avail")
			p.Latency = rawFromQuality(genQuality(t, "lat"), cfg.AdaptiveLat, cfg.LatP10, cfg.LatP90, score.WorstLatencyScore)
			p.Sync = rawFromQuality(genQuality(t, "sync"), cfg.AdaptiveSync, cfg.SyncP10, cfg.SyncP90, score.WorstSyncScore)
			if uni(t, "beyond", 20) == 0 { // beyond the clamp
				p.Latency *= 1.5
				p.Sync *= 1.5
			}
		}
		p.Stake = genStake(t, "stake")
		if allBad {
			p.Avail, p.Stake = 0, 0
			p.Latency = rawFromQuality(0, cfg.AdaptiveLat, cfg.LatP10, cfg.LatP90, score.WorstLatencyScore)
			p.Sync = rawFromQuality(0, cfg.AdaptiveSync, cfg.SyncP10, cfg.SyncP90, score.WorstSyncScore)
		}
		out[i] = p
	}
	return out
}

func qosOf(p provider) *pairingtypes.QualityOfServiceReport {
	return &pairingtypes.QualityOfServiceReport{
		Latency:      score.ConvertToDec(p.Latency),
		Availability: score.ConvertToDec(p.Avail),
		Sync:         score.ConvertToDec(p.Sync),
	}
}

type world struct {
	cfg   selectorConfig
	provs []provider
}

func (w *world) addresses() []string {
	out := make([]string, len(w.provs))
	for i, p := range w.provs {
		out[i] = p.Addr
	}
	return out
}

func (w *world) ignored() map[string]struct{} {
	out := map[string]struct{}{}
	for _, p := range w.provs {
		if p.Ignored {
			out[p.Addr] = struct{}{}
		}
	}
	return out
}

func (w *world) eligible() []string {
	var out []string
	for _, p := range w.provs {
		if !p.Ignored && p.HasQoS {
			out = append(out, p.Addr)
		}
	}
	return out
}

func (w *world) scores(ws *provideroptimizer.WeightedSelector) ([]provideroptimizer.ProviderScore, []provideroptimizer.ProviderScoreDetails) {
	byAddr := map[string]provider{}
	for _, p := range w.provs {
		byAddr[p.Addr] = p
	}
	getter := func(addr string) (*pairingtypes.QualityOfServiceReport, time.Time, bool) {
		p := byAddr[addr]
		if !p.HasQoS {
			return nil, time.Time{}, false
		}
		return qosOf(p), time.Time{}, true
	}
	stake := func(addr string) int64 { return byAddr[addr].Stake }
	s, _, d := ws.CalculateProviderScores(w.addresses(), w.ignored(), getter, stake)
	return s, d
}

func weightOf(scores []provideroptimizer.ProviderScore, addr string) (float64, bool) {
	for _, s := range scores {
		if s.Address == addr {
			return s.SelectionWeight, true
		}
	}
	return 0, false
}

// bernsteinTolerance returns t with P(|X-Np| >= t) <= delta for X ~ Binomial(N,p).
func bernsteinTolerance(n int, p, delta float64) float64 {
	l := math.Log(2 / delta)
	v := float64(n) * p * (1 - p)
	return l/3 + math.Sqrt(l*l/9+2*v*l)
}

func describe(w *world) string {
	s := fmt.Sprintf("config=%+v providers=[", w.cfg)
	for _, p := range w.provs {
		s += fmt.Sprintf("\n  %+v", p)
	}
	return s + "]"
}

func checkFrequencies(t *rapid.T, c *ev.Collector, what string, counts map[string]int, weights map[string]float64, n int, ctxDesc func() string) {
	total := 0.0
	addrs := make([]string, 0, len(weights))
	for a, w := range weights {
		total += w
		addrs = append(addrs, a)
	}
	sort.Strings(addrs)
	if len(addrs) < 2 {
		return
	}
	for _, a := range addrs {
		c.Clause("frequency-proportional-to-weight")
		p := 1 / float64(len(addrs)) // all weights are 0 (and equal): equal shares
		if total > 0 {
			p = weights[a] / total
		}
		tol := bernsteinTolerance(n, p, freqDelta) + 1
		if diff := math.Abs(float64(counts[a]) - float64(n)*p); diff > tol {
			t.Fatalf("%s", ev.Violation("C35", "%s: provider %s was selected %d times in %d seeded draws, expected %.1f (weight %.6g of total %.6g), deviation %.1f exceeds the %.0e-tail bound %.1f; counts=%v weights=%v\n%s",
				what, a, counts[a], n, float64(n)*p, weights[a], total, diff, freqDelta, tol, counts, weights, ctxDesc()))
		}
	}
}

func propSelectorLevel(t *rapid.T, c *ev.Collector) {
	w := &world{cfg: genConfig(t)}
	w.provs = genProviders(t, w.cfg)
	seed := int64(uni(t, "rngSeed", 1<<20)) + 1
	ws := provideroptimizer.NewWeightedSelector(w.cfg.build())
	ws.SetDeterministicSeed(seed)
	desc := func() string { return fmt.Sprintf("seed=%d %s", seed, describe(w)) }

	scores, details := w.scores(ws)
	eligible := w.eligible()

	// -- scores exist exactly for candidates minus ignored that have QoS data -------------------
	c.Clause("scored-set-is-candidates-minus-ignored-with-qos")
	got := map[string]int{}
	for _, s := range scores {
		got[s.Address]++
	}
	for _, a := range eligible {
		if got[a] != 1 {
			t.Fatalf("%s", ev.Violation("C35", "provider %s is a non-ignored candidate with QoS data but has %d score entries\n%s", a, got[a], desc()))
		}
	}
	if len(scores) != len(eligible) {
		t.Fatalf("%s", ev.Violation("C35", "scores were computed for %d providers, %d candidates are eligible (not ignored, with QoS): scored=%v eligible=%v\n%s", len(scores), len(eligible), got, eligible, desc()))
	}

	// -- every weight within [minSelectionChance, 1] -----------------------------------------------
	weights := map[string]float64{}
	distinct := map[float64]bool{}
	for _, s := range scores {
		c.Clause("weight-within-min-chance-and-one")
		if math.IsNaN(s.SelectionWeight) || s.SelectionWeight < w.cfg.MinChance || s.SelectionWeight > 1 {
			t.Fatalf("%s", ev.Violation("C35", "selection weight %v of provider %s is outside [%v, 1]\n%s", s.SelectionWeight, s.Address, w.cfg.MinChance, desc()))
		}
		if s.CompositeScore < w.cfg.MinChance || s.CompositeScore > 1 || math.IsNaN(s.CompositeScore) {
			t.Fatalf("%s", ev.Violation("C35", "composite score %v of provider %s is outside [%v, 1]\n%s", s.CompositeScore, s.Address, w.cfg.MinChance, desc()))
		}
		weights[s.Address] = s.SelectionWeight
		distinct[s.SelectionWeight] = true
	}

	// -- selection is from the eligible set; non-empty when some candidate has QoS data -----------
	draws := 20000
	if uni(t, "manyDraws", 16) == 0 {
		draws = 400000
	}
	if len(eligible) <= 1 {
		draws = 50
	}
	counts := map[string]int{}
	allowed := map[string]bool{}
	for _, a := range eligible {
		allowed[a] = true
	}
	ctx := context.Background()
	for i := 0; i < draws; i++ {
		var sel string
		if i%2 == 0 {
			sel = ws.SelectProvider(ctx, scores)
		} else {
			var stats *provideroptimizer.SelectionStats
			sel, stats = ws.SelectProviderWithStats(ctx, scores, details)
			if stats != nil && stats.SelectedProvider != sel {
				t.Fatalf("%s", ev.Violation("C35", "selection stats name %q but %q was returned\n%s", stats.SelectedProvider, sel, desc()))
			}
		}
		if len(eligible) == 0 {
			if sel != "" {
				t.Fatalf("%s", ev.Violation("C35", "provider %q selected although no candidate is eligible\n%s", sel, desc()))
			}
			continue
		}
		if !allowed[sel] {
			t.Fatalf("%s", ev.Violation("C35", "draw %d selected %q which is not in candidates minus ignored with QoS data %v\n%s", i, sel, eligible, desc()))
		}
		counts[sel]++
	}
	c.ClauseN("selected-from-candidates-minus-ignored", draws)
	if len(eligible) > 0 {
		c.ClauseN("selects-one-when-some-candidate-has-qos", draws)
	}
	checkFrequencies(t, c, "WeightedSelector.SelectProvider", counts, weights, draws, desc)

	// -- monotonicity: improving one parameter of one provider never lowers its weight ------------
	mono := ""
	if len(eligible) > 0 {
		target := pick(t, "monoTarget", eligible)
		idx := -1
		for i, p := range w.provs {
			if p.Addr == target {
				idx = i
			}
		}
		before, _ := weightOf(scores, target)
		steps := 1 + uni(t, "monoSteps", 3)
		for s := 0; s < steps; s++ {
			improved := *w
			improved.provs = append([]provider(nil), w.provs...)
			p := &improved.provs[idx]
			mono = pick(t, "monoParam", []string{"availability", "latency", "sync", "stake"})
			frac := unit(t, "monoFrac")
			if uni(t, "monoFull", 4) == 0 {
				frac = 1
			}
			switch mono {
			case "availability":
				p.Avail = math.Min(1, p.Avail+frac*(1-p.Avail))
			case "latency":
				p.Latency = math.Max(0, p.Latency*(1-frac))
			case "sync":
				p.Sync = math.Max(0, p.Sync*(1-frac))
			case "stake":
				add := int64(frac*float64(p.Stake)) + int64(uni(t, "monoStakeAdd", 1000))
				if uni(t, "monoStakeBig", 4) == 0 {
					add += 1_000_000_000_000
				}
				p.Stake += add
			}
			newScores, _ := improved.scores(ws)
			after, ok := weightOf(newScores, target)
			c.Clause("weight-monotone-in-" + mono)
			if !ok || after < before-monoEps {
				t.Fatalf("%s", ev.Violation("C35", "improving %s of provider %s (%+v -> %+v) lowered its selection weight from %.17g to %.17g\n%s", mono, target, w.provs[idx], *p, before, after, desc()))
			}
			w.provs = improved.provs
			before = after
		}
	}

	nontrivial := len(scores) >= 3 && len(distinct) >= 2
	classes := []string{"level:selector", fmt.Sprintf("eligible:%s", bucket(len(eligible))), "strategy:" + provideroptimizer.Strategy(w.cfg.Strategy).String()}
	if len(eligible) < len(w.provs) {
		classes = append(classes, "some-ignored-or-without-qos")
	}
	if len(eligible) == 0 {
		classes = append(classes, "none-eligible")
	}
	if w.cfg.AdaptiveLat && validBounds(w.cfg.LatP10, w.cfg.LatP90) {
		classes = append(classes, "adaptive-latency-bounds")
	}
	if w.cfg.AdaptiveLat && !validBounds(w.cfg.LatP10, w.cfg.LatP90) {
		classes = append(classes, "invalid-adaptive-bounds-fallback")
	}
	if w.cfg.AdaptiveSync && validBounds(w.cfg.SyncP10, w.cfg.SyncP90) {
		classes = append(classes, "adaptive-sync-bounds")
	}
	atMin := false
	for _, wt := range weights {
		if wt == w.cfg.MinChance {
			atMin = true
		}
	}
	if atMin {
		classes = append(classes, "weight-clamped-to-min-chance")
	}
	if len(weights) >= 2 && atMin && w.cfg.MinChance == 0 {
		allZero := true
		for _, wt := range weights {
			if wt != 0 {
				allZero = false
			}
		}
		if allZero {
			classes = append(classes, "all-weights-zero-uniform")
		}
	}
	if mono != "" {
		classes = append(classes, "mono:"+mono)
	}
	if draws > 20000 {
		classes = append(classes, "draws:400000")
	}
	c.Case(nontrivial, fmt.Sprintf("%d|%s", seed, describe(w)), classes...)
	if nontrivial {
		c.Sample(map[string]any{"config": fmt.Sprintf("%+v", w.cfg), "providers": w.provs, "weights": weights, "counts": counts, "draws": draws, "seed": seed})
	}
}

func bucket(n int) string {
	switch {
	case n == 0:
		return "0"
	case n == 1:
		return "1"
	case n == 2:
		return "2"
	case n <= 5:
		return "3-5"
	default:
		return "6-12"
	}
}

func propC35(t *rapid.T) {
	quietLogs()
	c := ev.For("C35")
	if uni(t, "level", 10) == 0 {
		propOptimizerLevel(t, c)
		return
	}
	propSelectorLevel(t, c)
}

func TestC35(t *testing.T) {
	c := ev.For("C35")
	c.SetRule("rapid draws a selector configuration (metric weights incl. non-normalised/zero/invalid, minSelectionChance in [0,1], all 7 strategies, adaptive latency/sync P10-P90 bounds incl. invalid ones) and 1-12 candidates with QoS reports aimed at the interesting normalised values (0, 0.7 threshold, 1, availability threshold), missing QoS, stakes 0..1e15, ignored subsets; 90% of cases drive WeightedSelector (CalculateProviderScores + 20000 or 400000 seeded SelectProvider draws), 10% drive ProviderOptimizer.ChooseProvider/ChooseBestProvider fed through AppendRelayData/AppendProbeRelayData with an injected clock. Non-trivial: at least 3 scored candidates with at least 2 distinct weights. Distinct = seed + full configuration and provider list.")
	c.Assume(
		"0 <= minSelectionChance <= 1 (a larger value cannot be honoured together with the upper bound 1)",
		"stakes are non-negative and their sum fits int64 (<= 1e15 ulava per provider, 12 providers)",
		"QoS reports are built with score.ConvertToDec as the optimizer does; candidate addresses are distinct",
		"monotonicity is checked for fixed adaptive bounds (selector level); at optimizer level only stake is improved because new latency/sync samples also move the global P10/P90 bounds",
		fmt.Sprintf("frequency clause: seeded draws (SetDeterministicSeed); per provider |count - N*w/sum(w)| <= Bernstein bound with two-sided tail probability %.0e per comparison (about 7.5 sigma for large N*p); with <= 12 comparisons per case and <= 2e5 cases per run the chance of a false alarm in a run is below 3e-6; not checked when all weights are 0 (uniform fallback)", freqDelta),
		"weights are compared with slack 1e-12 in the monotonicity clause (math.Pow is not correctly rounded)",
	)
	rapid.Check(t, propC35)
}
