package relayproc

import (
	"bytes"
	"context"
	"fmt"
	"os"
	"sort"
	"strings"
	"testing"
	"time"

	"github.com/lavanet/lava/v5/protocol/common"
	"github.com/lavanet/lava/v5/protocol/lavaprotocol"
	"github.com/lavanet/lava/v5/protocol/lavasession"
	"github.com/lavanet/lava/v5/protocol/relaycore"
	pairingtypes "github.com/lavanet/lava/v5/x/pairing/types"
	"pgregory.net/rapid"

	"verifharness/internal/ev"
)

// ---- C33: cross-validated responses reflect an agreeing quorum ---------------------------------
//
// A case is a multiset of provider responses + agreement threshold + max participants. Every
// generated arrival order of the multiset is fed to a fresh, real RelayProcessor in
// CrossValidation mode (real chain message, stub state machine) in two ways:
//   wait  : SetResponse* ; WaitForResults ; ProcessingResult      (early exit at the threshold)
//   drain : SetResponse* ; NodeResults (reads everything) ; ProcessingResult
// The oracle is the property statement evaluated on the responses the processor has read.

const (
	kOK      = "ok"      // successful reply with a non-empty payload
	kEmpty   = "empty"   // successful reply with nil / zero-length payload
	kNodeErr = "nodeerr" // reply the node marked as an error (JSON-RPC error body / REST 5xx)
	kProto   = "proto"   // relay failed at protocol level (Err != nil)
)

type c33Resp struct {
	Kind    string `json:"kind"`
	Payload int    `json:"payload"` // index into the payload table of the request flavour
	NilData bool   `json:"nil_data,omitempty"`
	Status  int    `json:"status"`
	ErrKind int    `json:"err_kind,omitempty"`
	NoReply bool   `json:"no_reply,omitempty"` // protocol error without any reply
}

type c33Case struct {
	Flavour   string    `json:"flavour"` // "jsonrpc" | "rest"
	Threshold int       `json:"threshold"`
	MaxPart   int       `json:"max_participants"`
	Resps     []c33Resp `json:"responses"`
}

// payload tables. Entries are pairwise different; several differ in one byte only or are a
// prefix of another, so "byte-identical" cannot be confused with "similar".
var (
	okJSONRPC = [][]byte{
		[]byte(`{"jsonrpc":"2.0","id":1,"result":"0x10"}`),
		[]byte(`{"jsonrpc":"2.0","id":1,"result":"0x10"} `),
		[]byte(`{"jsonrpc":"2.0","id":1,"result":"0x11"}`),
		[]byte(`{"jsonrpc":"2.0","id":1,"result":"0x1"}`),
		[]byte(`{"jsonrpc":"2.0","id":1,"result":[]}`),
		[]byte(`{"jsonrpc":"2.0","id":1,"result":null}`),
	}
	errJSONRPC = [][]byte{
		[]byte(`{"jsonrpc":"2.0","id":1,"error":{"code":-32000,"message":"header not found"}}`),
		[]byte(`{"jsonrpc":"2.0","id":1,"error":{"code":3,"message":"execution reverted"}}`),
	}
	okREST = [][]byte{
		[]byte(`{"block":{"header":{"height":"17"}}}`),
		[]byte(`{"block":{"header":{"height":"17"}}}` + "\n"),
		[]byte(`{"block":{"header":{"height":"18"}}}`),
		[]byte(`{"block":{"header":{"height":"1"}}}`),
		[]byte(`[]`),
		[]byte(`{}`),
	}
)

func (c *c33Case) request() request {
	if c.Flavour == "rest" {
		return reqLavaRestBlock
	}
	return reqEthGetBalance
}

// data returns the reply payload of a response (nil when there is no payload).
func (c *c33Case) data(r c33Resp) []byte {
	switch r.Kind {
	case kOK:
		if c.Flavour == "rest" {
			return okREST[r.Payload%len(okREST)]
		}
		return okJSONRPC[r.Payload%len(okJSONRPC)]
	case kEmpty:
		if r.NilData {
			return nil
		}
		return []byte{}
	case kNodeErr:
		if c.Flavour == "rest" {
			// REST marks node errors by the HTTP status: the body may be byte-identical to a
			// successful payload of another provider and must still not count.
			return okREST[r.Payload%len(okREST)]
		}
		return errJSONRPC[r.Payload%len(errJSONRPC)]
	case kProto:
		if r.NoReply {
			return nil
		}
		if c.Flavour == "rest" {
			return okREST[r.Payload%len(okREST)]
		}
		return okJSONRPC[r.Payload%len(okJSONRPC)]
	}
	return nil
}

func protoErr(kind int) error {
	switch kind % 4 {
	case 0:
		return fmt.Errorf("rpc error: code = Unavailable desc = connection refused")
	case 1:
		return lavasession.EpochMismatchError
	case 2:
		return context.DeadlineExceeded
	default:
		return fmt.Errorf("provider session out of sync")
	}
}

func (c *c33Case) build(i int, r c33Resp) *relaycore.RelayResponse {
	res := common.RelayResult{
		Request: &pairingtypes.RelayRequest{
			RelaySession: &pairingtypes.RelaySession{},
			RelayData:    &pairingtypes.RelayPrivateData{},
		},
		ProviderInfo: common.ProviderInfo{ProviderAddress: fmt.Sprintf("lava@provider%d", i)},
		StatusCode:   r.Status,
	}
	var err error
	switch r.Kind {
	case kProto:
		err = protoErr(r.ErrKind)
		if !r.NoReply {
			res.Reply = &pairingtypes.RelayReply{Data: c.data(r)}
		}
	default:
		d := c.data(r)
		if d != nil {
			d = append([]byte{}, d...) // every provider has its own buffer
		}
		res.Reply = &pairingtypes.RelayReply{Data: d, LatestBlock: int64(100 + i)}
	}
	return &relaycore.RelayResponse{RelayResult: res, Err: err}
}

// successful says whether the statement counts the response as "successful data", and its bytes.
func (c *c33Case) successful(r c33Resp) (bool, string) {
	if r.Kind == kOK || r.Kind == kEmpty {
		return true, string(c.data(r))
	}
	return false, ""
}

type c33Groups struct {
	counts      map[string]int // successful payload -> providers
	maxNonEmpty int
	empties     int
}

func (c *c33Case) groups(seq []c33Resp) c33Groups {
	g := c33Groups{counts: map[string]int{}}
	for _, r := range seq {
		if ok, d := c.successful(r); ok {
			g.counts[d]++
		}
	}
	for d, n := range g.counts {
		if d == "" {
			g.empties = n
		} else if n > g.maxNonEmpty {
			g.maxNonEmpty = n
		}
	}
	return g
}

// reaching returns the sorted payloads whose group reaches the threshold.
func (g c33Groups) reaching(threshold int) []string {
	var out []string
	for d, n := range g.counts {
		if n >= threshold {
			out = append(out, d)
		}
	}
	sort.Strings(out)
	return out
}

type c33Outcome struct {
	err      error
	data     []byte
	consumed int
	waitErr  error
}

var c33Retries = lavaprotocol.NewRelayRetriesManager()

// runC33 feeds one arrival order to a fresh processor.
func runC33(c *c33Case, seq []c33Resp, drain bool) (c33Outcome, error) {
	ctx, cancel := context.WithCancel(context.Background())
	defer cancel()
	pm, err := newProtocolMessage(ctx, c.request(), map[string]string{
		common.CROSS_VALIDATION_HEADER_MAX_PARTICIPANTS:    fmt.Sprint(c.MaxPart),
		common.CROSS_VALIDATION_HEADER_AGREEMENT_THRESHOLD: fmt.Sprint(c.Threshold),
	})
	if err != nil {
		return c33Outcome{}, err
	}
	cv := &common.CrossValidationParams{MaxParticipants: c.MaxPart, AgreementThreshold: c.Threshold}
	used := lavasession.NewUsedProviders(nil)
	sm := &fixedStateMachine{pm: pm, used: used, selection: relaycore.CrossValidation, cv: cv}
	rp := relaycore.NewRelayProcessor(ctx, cv, nil, metricsMock{}, metricsMock{}, c33Retries, sm)
	sessions := lavasession.ConsumerSessionsMap{}
	for i := range seq {
		sessions[fmt.Sprintf("lava@provider%d", i)] = &lavasession.SessionInfo{}
	}
	used.AddUsed(sessions, nil)
	if used.SessionsLatestBatch() != len(seq) {
		return c33Outcome{}, fmt.Errorf("batch size %d != %d", used.SessionsLatestBatch(), len(seq))
	}
	for i, r := range seq {
		rp.SetResponse(c.build(i, r))
	}
	var out c33Outcome
	if drain {
		rp.NodeResults()
	} else {
		wctx, wcancel := context.WithTimeout(ctx, 3*time.Second)
		out.waitErr = rp.WaitForResults(wctx)
		wcancel()
	}
	s, ne, sne, pe := rp.GetResults()
	out.consumed = s + ne + sne + pe
	res, perr := rp.ProcessingResult()
	out.err = perr
	if perr == nil {
		if res == nil {
			return out, fmt.Errorf("nil result with nil error")
		}
		out.data = res.GetReply().GetData()
	}
	return out, nil
}

func c33Key(r c33Resp) string {
	return fmt.Sprintf("%s/%d/%v/%d/%d/%v", r.Kind, r.Payload, r.NilData, r.Status, r.ErrKind, r.NoReply)
}

// distinctOrders enumerates all distinct arrangements of the multiset (next-permutation on keys).
func distinctOrders(resps []c33Resp, limit int) [][]c33Resp {
	sorted := append([]c33Resp{}, resps...)
	sort.SliceStable(sorted, func(a, b int) bool { return c33Key(sorted[a]) < c33Key(sorted[b]) })
	// idx[i] = rank of the i-th element's key; equal responses share a rank
	idx := make([]int, len(sorted))
	byRank := map[int]c33Resp{}
	rank := -1
	prev := ""
	for i, r := range sorted {
		if k := c33Key(r); i == 0 || k != prev {
			rank++
			prev = k
		}
		idx[i] = rank
		byRank[rank] = r
	}
	var out [][]c33Resp
	for {
		seq := make([]c33Resp, len(idx))
		for i, v := range idx {
			seq[i] = byRank[v]
		}
		out = append(out, seq)
		if limit > 0 && len(out) >= limit {
			return out
		}
		// next permutation
		i := len(idx) - 2
		for i >= 0 && idx[i] >= idx[i+1] {
			i--
		}
		if i < 0 {
			return out
		}
		j := len(idx) - 1
		for idx[j] <= idx[i] {
			j--
		}
		idx[i], idx[j] = idx[j], idx[i]
		for a, b := i+1, len(idx)-1; a < b; a, b = a+1, b-1 {
			idx[a], idx[b] = idx[b], idx[a]
		}
	}
}

func genC33Case(t *rapid.T) *c33Case {
	c := &c33Case{}
	if rapid.IntRange(0, 3).Draw(t, "flavour") == 0 {
		c.Flavour = "rest"
	} else {
		c.Flavour = "jsonrpc"
	}
	c.Threshold = rapid.SampledFrom([]int{2, 3, 2, 1, 3, 4, 2, 5, 3, 1, 4, 2, 5}).Draw(t, "threshold")
	T := c.Threshold
	around := func(label string) int { // a group size near the threshold, or small
		v := rapid.SampledFrom([]int{T - 1, T, T, T + 1, 1, 2}).Draw(t, label)
		if v < 1 {
			v = 1
		}
		return v
	}
	base := rapid.IntRange(0, 5).Draw(t, "payloadBase")
	groups := rapid.IntRange(0, 3).Draw(t, "okGroups")
	tie := rapid.IntRange(0, 2).Draw(t, "forceTie") == 0
	var sizes []int
	for g := 0; g < groups; g++ {
		sz := around("groupSize")
		if g == 1 && tie {
			sz = sizes[0]
		}
		sizes = append(sizes, sz)
	}
	empties := rapid.SampledFrom([]int{0, 0, 0, 1, T - 1, T, T + 1}).Draw(t, "empties")
	nodeErrs := rapid.SampledFrom([]int{0, 0, 1, 2, T}).Draw(t, "nodeErrs")
	protoErrs := rapid.SampledFrom([]int{0, 0, 1, 2, T}).Draw(t, "protoErrs")
	var all []c33Resp
	for g, sz := range sizes {
		for i := 0; i < sz; i++ {
			all = append(all, c33Resp{Kind: kOK, Payload: (base + g) % 6, Status: 200})
		}
	}
	for i := 0; i < empties; i++ {
		all = append(all, c33Resp{Kind: kEmpty, NilData: rapid.Bool().Draw(t, "nilData"), Status: 200})
	}
	sameErrBody := rapid.Bool().Draw(t, "sameErrBody")
	for i := 0; i < nodeErrs; i++ {
		r := c33Resp{Kind: kNodeErr}
		if c.Flavour == "rest" {
			// body identical to a successful payload, node error by HTTP status
			r.Payload = base % 6
			r.Status = rapid.SampledFrom([]int{500, 502, 503, 429}).Draw(t, "errStatus")
		} else {
			r.Status = rapid.SampledFrom([]int{200, 500}).Draw(t, "errStatus")
			if !sameErrBody {
				r.Payload = rapid.IntRange(0, 1).Draw(t, "errPayload")
			}
		}
		all = append(all, r)
	}
	for i := 0; i < protoErrs; i++ {
		r := c33Resp{Kind: kProto, Payload: base % 6}
		r.ErrKind = rapid.IntRange(0, 3).Draw(t, "errKind")
		r.NoReply = rapid.IntRange(0, 3).Draw(t, "noReply") == 0
		r.Status = rapid.SampledFrom([]int{0, 200, 500}).Draw(t, "protoStatus")
		all = append(all, r)
	}
	if len(all) > 8 {
		// keep a drawn sub-multiset of 8
		all = rapid.Permutation(all).Draw(t, "subset")[:8]
	}
	if len(all) == 0 {
		all = append(all, c33Resp{Kind: kOK, Payload: base % 6, Status: 200})
	}
	// real callers send only when at least `threshold` sessions were acquired; a minority of
	// cases keeps fewer responses than the threshold (must be an error whatever they are)
	if len(all) < T && rapid.IntRange(0, 9).Draw(t, "allowShort") != 0 {
		for k := 0; len(all) < T; k++ {
			all = append(all, c33Resp{Kind: kOK, Payload: (base + 3 + k) % 6, Status: 200})
		}
	}
	c.Resps = rapid.Permutation(all).Draw(t, "initialOrder")
	c.MaxPart = len(c.Resps)
	if T > c.MaxPart {
		c.MaxPart = T
	}
	c.MaxPart += rapid.IntRange(0, 3).Draw(t, "extraParticipants")
	return c
}

func (c *c33Case) String() string {
	var sb strings.Builder
	fmt.Fprintf(&sb, "%s threshold=%d maxParticipants=%d [", c.Flavour, c.Threshold, c.MaxPart)
	for i, r := range c.Resps {
		if i > 0 {
			sb.WriteString(" ")
		}
		sb.WriteString(c.show(r))
	}
	sb.WriteString("]")
	return sb.String()
}

func (c *c33Case) show(r c33Resp) string {
	switch r.Kind {
	case kOK:
		return fmt.Sprintf("ok:%q", c.data(r))
	case kEmpty:
		if r.NilData {
			return "empty:nil"
		}
		return "empty:[]"
	case kNodeErr:
		return fmt.Sprintf("nodeerr(%d):%q", r.Status, c.data(r))
	default:
		return fmt.Sprintf("proto(%d,noreply=%v):%q", r.ErrKind, r.NoReply, c.data(r))
	}
}

func showSeq(c *c33Case, seq []c33Resp) string {
	parts := make([]string, len(seq))
	for i, r := range seq {
		parts[i] = c.show(r)
	}
	return "[" + strings.Join(parts, " ") + "]"
}

// checkC33Order applies the statement to one outcome. read is the part of the arrival order the
// processor has read when it decided (all of it in drain mode).
func checkC33Order(t *rapid.T, col *ev.Collector, c *c33Case, seq []c33Resp, out c33Outcome, mode string) {
	full := c.groups(seq)
	consumed := out.consumed
	if consumed > len(seq) {
		consumed = len(seq)
	}
	read := c.groups(seq[:consumed])
	where := fmt.Sprintf("mode=%s case=%s order=%s read=%d", mode, c, showSeq(c, seq), consumed)
	if out.err == nil {
		d := string(out.data)
		col.Clause("returned-data-has-quorum-of-identical-successful-responses")
		if full.counts[d] < c.Threshold {
			t.Fatalf("%s", ev.Violation("C33", "returned %q but only %d providers returned that successful data (threshold %d); %s", d, full.counts[d], c.Threshold, where))
		}
		if read.counts[d] < c.Threshold {
			t.Fatalf("%s", ev.Violation("C33", "returned %q but only %d of the responses read so far carry that successful data (threshold %d); %s", d, read.counts[d], c.Threshold, where))
		}
		if d != "" {
			col.Clause("returned-data-is-a-largest-non-empty-group")
			if read.counts[d] != read.maxNonEmpty {
				t.Fatalf("%s", ev.Violation("C33", "returned %q (group of %d) while a larger group of %d identical non-empty responses had been read; %s", d, read.counts[d], read.maxNonEmpty, where))
			}
		} else {
			col.Clause("empty-only-when-no-non-empty-group-reaches-threshold")
			if read.maxNonEmpty >= c.Threshold {
				t.Fatalf("%s", ev.Violation("C33", "returned the empty response although a non-empty group of %d had been read (threshold %d); %s", read.maxNonEmpty, c.Threshold, where))
			}
		}
		return
	}
	// error verdict: legitimate only if no group can reach the threshold. All responses of the
	// batch were available to the processor before it was asked, and it did not time out.
	if out.waitErr == nil {
		col.Clause("error-only-when-no-group-reaches-threshold")
		if r := full.reaching(c.Threshold); len(r) > 0 {
			t.Fatalf("%s", ev.Violation("C33", "returned error %q although %d providers returned identical successful data %q (threshold %d); %s",
				firstLine(out.err.Error()), full.counts[r[0]], r[0], c.Threshold, where))
		}
	}
}

func firstLine(s string) string {
	if i := strings.IndexByte(s, '\n'); i >= 0 {
		s = s[:i]
	}
	if len(s) > 160 {
		s = s[:160]
	}
	return s
}

func c33Tier() (maxOrders, drainOrders int) {
	if os.Getenv("VERIF_TIER") == "thorough" {
		return 120, 12
	}
	return 60, 8
}

func propC33(t *rapid.T) {
	col := ev.For("C33")
	c := genC33Case(t)
	n := len(c.Resps)
	maxOrders, drainOrders := c33Tier()

	var orders [][]c33Resp
	exhaustive := false
	if n <= 5 {
		orders = distinctOrders(c.Resps, 0)
		exhaustive = true
		if len(orders) > maxOrders {
			// keep a drawn subset, always including the sorted and the reversed arrangement
			keep := [][]c33Resp{orders[0], orders[len(orders)-1]}
			for len(keep) < maxOrders {
				keep = append(keep, orders[rapid.IntRange(0, len(orders)-1).Draw(t, "orderPick")])
			}
			orders = keep
			exhaustive = false
		}
	} else {
		k := maxOrders / 3
		for i := 0; i < k; i++ {
			perm := rapid.Permutation(c.Resps).Draw(t, "order")
			orders = append(orders, perm)
		}
	}

	full := c.groups(c.Resps)
	reach := full.reaching(c.Threshold)
	tie := false
	if full.maxNonEmpty >= c.Threshold {
		cnt := 0
		for d, k := range full.counts {
			if d != "" && k == full.maxNonEmpty {
				cnt++
			}
		}
		tie = cnt > 1
	}
	hasEmpty := full.empties > 0
	classes := []string{fmt.Sprintf("n=%d", n), fmt.Sprintf("threshold=%d", c.Threshold), "flavour=" + c.Flavour}
	if tie {
		classes = append(classes, "tie-between-largest-groups")
	}
	if hasEmpty {
		classes = append(classes, "has-empty-payload")
	}
	if full.empties >= c.Threshold {
		classes = append(classes, "empty-group-reaches-threshold")
		if full.maxNonEmpty >= c.Threshold {
			classes = append(classes, "empty-and-non-empty-both-reach-threshold")
		}
	}
	if len(reach) > 1 {
		classes = append(classes, "several-groups-reach-threshold")
	}
	if len(reach) == 0 {
		classes = append(classes, "no-quorum")
	} else {
		classes = append(classes, "quorum")
	}
	if full.maxNonEmpty == c.Threshold-1 || full.empties == c.Threshold-1 {
		classes = append(classes, "one-short-of-threshold")
	}
	nodeErrs, protoErrs := 0, 0
	for _, r := range c.Resps {
		if r.Kind == kNodeErr {
			nodeErrs++
		}
		if r.Kind == kProto {
			protoErrs++
		}
	}
	if nodeErrs > 0 {
		classes = append(classes, "has-node-error")
	}
	if nodeErrs >= c.Threshold {
		classes = append(classes, "identical-node-errors-could-fake-quorum")
	}
	if protoErrs > 0 {
		classes = append(classes, "has-protocol-error")
	}
	if n < c.Threshold {
		classes = append(classes, "fewer-responses-than-threshold")
	}
	if exhaustive {
		classes = append(classes, "all-arrival-orders")
	} else {
		classes = append(classes, "sampled-arrival-orders")
	}
	nontrivial := tie || hasEmpty
	col.Case(nontrivial, c.String(), classes...)
	if nontrivial {
		col.Sample(c)
	}

	// --- wait mode over all orders
	type verdict struct {
		isErr bool
		data  string
	}
	var first *verdict
	var firstSeq []c33Resp
	for _, seq := range orders {
		out, herr := runC33(c, seq, false)
		if herr != nil {
			t.Fatalf("%s", ev.HarnessError("C33 fixture: %v", herr))
		}
		col.AddExtra("processor_runs", 1)
		if out.waitErr != nil {
			col.Class("wait-timed-out")
		}
		if out.consumed < len(seq) {
			col.Class("early-exit")
		}
		checkC33Order(t, col, c, seq, out, "wait")
		v := &verdict{isErr: out.err != nil, data: string(out.data)}
		if first == nil {
			first, firstSeq = v, seq
			continue
		}
		if out.waitErr != nil {
			continue
		}
		col.Clause("verdict-independent-of-arrival-order")
		if v.isErr != first.isErr {
			t.Fatalf("%s", ev.Violation("C33", "same responses, different verdict: order %s -> error=%v, order %s -> error=%v; case=%s",
				showSeq(c, firstSeq), first.isErr, showSeq(c, seq), v.isErr, c))
		}
		if !v.isErr && len(reach) == 1 {
			col.Clause("data-independent-of-arrival-order-when-one-group-qualifies")
			if v.data != first.data {
				t.Fatalf("%s", ev.Violation("C33", "same responses, only %q reaches the threshold, but order %s returned %q and order %s returned %q; case=%s",
					reach[0], showSeq(c, firstSeq), first.data, showSeq(c, seq), v.data, c))
			}
		}
	}

	// --- drain mode: everything has been read before the decision, so the statement applies to
	// the whole multiset (ties, larger groups behind a smaller qualifying one, empties)
	step := 1
	if len(orders) > drainOrders {
		step = len(orders) / drainOrders
	}
	for i := 0; i < len(orders); i += step {
		seq := orders[i]
		out, herr := runC33(c, seq, true)
		if herr != nil {
			t.Fatalf("%s", ev.HarnessError("C33 fixture: %v", herr))
		}
		col.AddExtra("processor_runs", 1)
		if out.consumed != len(seq) {
			t.Fatalf("%s", ev.HarnessError("C33 drain read %d of %d responses", out.consumed, len(seq)))
		}
		checkC33Order(t, col, c, seq, out, "drain")
		col.Clause("verdict-independent-of-arrival-order")
		if (out.err != nil) != (len(reach) == 0) {
			t.Fatalf("%s", ev.Violation("C33", "all responses read: error=%v but groups reaching the threshold: %q; order %s case=%s", out.err != nil, reach, showSeq(c, seq), c))
		}
		if out.err == nil && !tie {
			want := ""
			if full.maxNonEmpty >= c.Threshold {
				for d, k := range full.counts {
					if d != "" && k == full.maxNonEmpty {
						want = d
					}
				}
			}
			col.Clause("data-independent-of-arrival-order-when-one-group-qualifies")
			if !bytes.Equal([]byte(want), out.data) && !(want == "" && len(out.data) == 0) {
				t.Fatalf("%s", ev.Violation("C33", "all responses read: expected %q (largest qualifying group), got %q; order %s case=%s", want, out.data, showSeq(c, seq), c))
			}
		}
	}
}

func TestC33(t *testing.T) {
	col := ev.For("C33")
	col.SetRule("a case = multiset of 1-8 provider responses (successful payloads in identical groups incl. one-byte-different and prefix payloads, empty/nil payloads, node errors, protocol errors) + agreement threshold 1-5 + max participants, JSON-RPC (ETH1) or REST (LAV1) request; every distinct arrival order (n<=5, capped) or drawn permutations (n>5) is fed to a fresh RelayProcessor; non-trivial = the multiset has a tie between largest qualifying groups or contains an empty payload; distinct = case text (flavour, threshold, max participants, responses)")
	col.Assume(
		"a relay response without protocol error always carries a reply object (possibly with nil/empty data), as the consumer's relay goroutine produces it",
		"every provider of the batch answers exactly once and each response comes from a different provider",
		"node errors are JSON-RPC error bodies (JSON-RPC flavour) or HTTP 5xx/429 status (REST flavour); successful payloads carry no error member",
		"the statement is applied to the responses the processor has read when it is asked for the result: WaitForResults legitimately stops reading once a group reaches the threshold (early exit), so a larger group arriving later is not required to win; with everything read (drain mode) the whole multiset is the reference",
		"agreement threshold >= 1 and max participants <= 50 (validated when the headers are parsed)",
	)
	rapid.Check(t, propC33)
}
