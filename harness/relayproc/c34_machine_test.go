package relayproc

import (
	"context"
	"errors"
	"fmt"
	"os"
	"strings"
	"sync"
	"sync/atomic"
	"testing"
	"time"

	"github.com/lavanet/lava/v5/protocol/chainlib"
	"github.com/lavanet/lava/v5/protocol/common"
	"github.com/lavanet/lava/v5/protocol/lavaprotocol"
	"github.com/lavanet/lava/v5/protocol/lavasession"
	"github.com/lavanet/lava/v5/protocol/relaycore"
	"github.com/lavanet/lava/v5/protocol/relaypolicy"
	"github.com/lavanet/lava/v5/protocol/rpcconsumer"
	pairingtypes "github.com/lavanet/lava/v5/x/pairing/types"
	"pgregory.net/rapid"

	"verifharness/internal/ev"
)

// ---- C34 (b): the relay state machine driven by event scripts ----------------------------------
//
// The harness plays the consumer: it reads instructions from the relay task channel; for every
// non-final instruction it takes the next script step (send fails / send succeeds and the
// providers answer now, later, or after further instructions) and reports it through
// UpdateBatch / UsedProviders / SetResponse exactly like rpcconsumer.ProcessRelaySend and
// sendRelayToProvider do. The results checker is the real RelayProcessor behind a recording
// wrapper, the policy is the real relaypolicy.Policy behind a recording wrapper, the relay
// sender is a mock that only supplies the timeouts.
//
// Two families:
//   sequential (no ticker: relay timeout = 1h): every instruction is a reaction to something the
//     harness did, so all bounds are exact and checked strictly on the instruction stream;
//   ticker (relay timeout 10-30 ms): ticks interleave freely with results and send failures;
//     rules are checked on a totally ordered event log (logical clock, no wall-clock decisions),
//     with explicit allowances where a tick can legitimately overtake a result.

type smConfig struct {
	Mode              string `json:"mode"` // stateless | stateful | cv
	Batch             bool   `json:"batch,omitempty"`
	CVMax             int    `json:"cv_max,omitempty"`
	CVThreshold       int    `json:"cv_threshold,omitempty"`
	MaxRetries        int    `json:"max_retries"`
	SendRelayAttempts int    `json:"send_relay_attempts"`
	RelayRetryLimit   int    `json:"relay_retry_limit"`
	DisableBatchRetry bool   `json:"disable_batch_retry,omitempty"`
	CircuitBreaker    bool   `json:"circuit_breaker,omitempty"`
	CBThreshold       int    `json:"cb_threshold,omitempty"`
	TimeoutPriority   bool   `json:"timeout_priority,omitempty"`
	RelayTimeoutMs    int    `json:"relay_timeout_ms"`      // 0 = no ticker
	ProcessingMs      int    `json:"processing_timeout_ms"` // 0 = far away
	ViaConsumer       bool   `json:"via_consumer,omitempty"`
	// NoticeDelayMs (demonstration only, never generated): the results checker takes this long to
	// report "required results are there" - a legal schedule in which the goroutine that reads the
	// results is slow while the ticker keeps firing.
	NoticeDelayMs int `json:"notice_delay_ms,omitempty"`
	// AnswerDelayUs (demonstration only): provider latency before an immediate answer is delivered.
	AnswerDelayUs int `json:"answer_delay_us,omitempty"`
}

const (
	rSuccess     = "success"
	rNodeErr     = "node-error"
	rNodeErrPerm = "node-error-non-retryable"
	rProtoErr    = "protocol-error"
	rProtoPerm   = "protocol-error-permanent"
	rEpoch       = "epoch-mismatch"
)

type resultSpec struct {
	Kind    string `json:"kind"`
	Payload int    `json:"payload,omitempty"`
	Hold    int    `json:"hold,omitempty"` // 0 deliver at once; k>0 deliver when k more instructions were handled, or when nothing happens
}

type scriptStep struct {
	SendFail int          `json:"send_fail,omitempty"` // 0 ok, 1 generic failure, 2 pairing list empty
	Sessions int          `json:"sessions,omitempty"`  // stateful only: providers reached
	Results  []resultSpec `json:"results,omitempty"`
}

type c34Case struct {
	Cfg   smConfig     `json:"config"`
	Steps []scriptStep `json:"steps"`
}

// ---- event log -----------------------------------------------------------------------------------

const (
	eRecv        = "recv"         // harness received an instruction (A = index, Flag = final)
	eHandled     = "handled"      // harness finished the send of instruction A (Flag = send ok)
	eDeliver     = "deliver"      // harness is about to hand response number A to the processor (S = kind)
	eSummaryRead = "summary-read" // machine starts reading the results summary for a decision
	eDecide      = "decide"       // policy decision (Flag = retry, B = attempt number, S = reason)
	eSendRes     = "send-result"  // policy send decision (S = outcome)
	eConsumed    = "consumed"     // WaitForResults returned, A = responses stored so far
	eNoticed     = "noticed"      // HasRequiredNodeResults returned (Flag = met)
)

type logEv struct {
	Kind  string
	A, B  int
	Flag  bool
	Flag2 bool // decide: ticker hedge; decide: clean
	Clean bool
	S     string
	In    relaycore.DecisionInput
}

type eventLog struct {
	mu      sync.Mutex
	evs     []logEv
	emitted int // instructions the machine has been told to emit (1 initial + retry decisions)
}

func (l *eventLog) add(e logEv) {
	l.mu.Lock()
	l.evs = append(l.evs, e)
	l.mu.Unlock()
}

// recPolicy records every decision of the real policy.
type recPolicy struct {
	inner   *relaypolicy.Policy
	log     *eventLog
	used    *lavasession.UsedProviders
	handled *atomic.Int64 // instructions the consumer has finished sending (ok or failed)
	reports int           // send reports (UpdateBatch) the machine has processed; under log.mu
}

func (p *recPolicy) Decide(in relaycore.DecisionInput) relaycore.DecisionOutput {
	out := p.inner.Decide(in)
	batchNow := p.used.BatchNumber()
	handled := int(p.handled.Load())
	p.log.mu.Lock()
	// clean: every instruction emitted so far has been fully handled by the consumer and the
	// attempt number given to the policy is the current batch number, i.e. the decision was
	// not taken while an earlier instruction was still on its way.
	// Every handled instruction is reported through UpdateBatch, so "reports processed ==
	// instructions handled" also means no send-failure report is still queued (a queued failure
	// report re-sends on its own, independently of this decision).
	clean := handled >= p.log.emitted && batchNow == in.AttemptNumber && p.reports >= handled
	p.log.evs = append(p.log.evs, logEv{Kind: eDecide, Flag: out.Action == relaycore.ActionRetry, B: in.AttemptNumber, Flag2: in.IsTickerHedge, Clean: clean, S: out.Reason, In: in})
	if out.Action == relaycore.ActionRetry {
		p.log.emitted++
	}
	p.log.mu.Unlock()
	return out
}

func (p *recPolicy) OnSendRelayResult(err error, isPairingListEmpty bool) relaycore.SendResult {
	res := p.inner.OnSendRelayResult(err, isPairingListEmpty)
	p.log.mu.Lock()
	p.log.evs = append(p.log.evs, logEv{Kind: eSendRes, A: int(res), Flag: err == nil})
	p.reports++
	if res == relaycore.SendRetry {
		p.log.emitted++
	}
	p.log.mu.Unlock()
	return res
}

func (p *recPolicy) GetConsecutiveBatchErrors() int { return p.inner.GetConsecutiveBatchErrors() }

// recChecker is the results checker given to the machine: the real processor plus recording.
type recChecker struct {
	inner   *relaycore.RelayProcessor
	log     *eventLog
	delay   time.Duration
	ctxOnce sync.Once
	ctxCh   chan context.Context
}

func (c *recChecker) WaitForResults(ctx context.Context) error {
	c.ctxOnce.Do(func() { c.ctxCh <- ctx })
	err := c.inner.WaitForResults(ctx)
	s, ne, sne, pe := c.inner.GetResults()
	c.log.add(logEv{Kind: eConsumed, A: s + ne + sne + pe})
	return err
}

func (c *recChecker) HasRequiredNodeResults(tries int) (bool, int) {
	met, n := c.inner.HasRequiredNodeResults(tries)
	if met && c.delay > 0 {
		time.Sleep(c.delay)
	}
	c.log.add(logEv{Kind: eNoticed, Flag: met})
	return met, n
}

func (c *recChecker) GetCrossValidationParams() *common.CrossValidationParams {
	return c.inner.GetCrossValidationParams()
}

func (c *recChecker) GetResultsSummary() relaycore.ResultsSummary {
	c.log.add(logEv{Kind: eSummaryRead})
	return c.inner.GetResultsSummary()
}

// ---- running one case ------------------------------------------------------------------------------

type instrObs struct {
	Final       bool
	Err         string
	Providers   int
	Handled     string // "", "ok", "fail"
	AfterDone   bool
	AfterOKSend bool // a send had succeeded before this instruction was received
}

type c34Result struct {
	Violation    string
	Inconclusive string
	Classes      []string
	Nontrivial   bool
	Summary      string
	Clauses      map[string]int
}

var c34Retries = lavaprotocol.NewRelayRetriesManager()

var c34Payloads = [][]byte{
	[]byte(`{"jsonrpc":"2.0","id":1,"result":"0x10"}`),
	[]byte(`{"jsonrpc":"2.0","id":1,"result":"0x11"}`),
	[]byte(`{"jsonrpc":"2.0","id":1,"result":"0x12"}`),
}

func (c *c34Case) request() request {
	switch {
	case c.Cfg.Mode == "stateful":
		return reqEthSendRawTx
	case c.Cfg.Batch:
		return reqEthBatch
	}
	return reqEthGetBalance
}

func buildResponse(provider string, r resultSpec, batch bool) (*relaycore.RelayResponse, error) {
	res := common.RelayResult{
		Request:      &pairingtypes.RelayRequest{RelaySession: &pairingtypes.RelaySession{}, RelayData: &pairingtypes.RelayPrivateData{}},
		ProviderInfo: common.ProviderInfo{ProviderAddress: provider},
		StatusCode:   200,
	}
	var err error
	switch r.Kind {
	case rSuccess:
		data := append([]byte{}, c34Payloads[r.Payload%len(c34Payloads)]...)
		if batch {
			data = []byte(fmt.Sprintf(`[%s,{"jsonrpc":"2.0","id":2,"result":"0x5"}]`, data))
		}
		res.Reply = &pairingtypes.RelayReply{Data: data, LatestBlock: 10}
	case rNodeErr, rNodeErrPerm:
		body := `{"jsonrpc":"2.0","id":1,"error":{"code":-32000,"message":"header not found"}}`
		if r.Kind == rNodeErrPerm {
			body = `{"jsonrpc":"2.0","id":1,"error":{"code":3,"message":"execution reverted"}}`
		}
		if batch {
			// a batch reply is a node error when every sub-request failed
			body = fmt.Sprintf(`[%s,{"jsonrpc":"2.0","id":2,"error":{"code":-32000,"message":"header not found"}}]`, body)
		}
		res.Reply = &pairingtypes.RelayReply{Data: []byte(body)}
		res.IsNodeError = true
		// the consumer's relay goroutine classifies the node error before storing it
		res.IsNonRetryable = r.Kind == rNodeErrPerm
	case rProtoErr:
		err = fmt.Errorf("rpc error: code = Unavailable desc = connection refused")
	case rProtoPerm:
		if r.Payload%2 == 0 {
			err = common.NewLavaError(common.LavaErrorNodeMethodNotFound, "provider rejected the relay")
		} else {
			err = common.NewLavaError(common.LavaErrorUserInvalidParams, "provider rejected the relay")
		}
	case rEpoch:
		err = lavasession.EpochMismatchError
	default:
		return nil, fmt.Errorf("unknown result kind %q", r.Kind)
	}
	return &relaycore.RelayResponse{RelayResult: res, Err: err}, err
}

type pendingResp struct {
	provider string
	spec     resultSpec
	hold     int
}

// runC34 executes one case. It never touches *testing.T (it runs in its own goroutine).
func runC34(c *c34Case, excludeHedge bool) (res c34Result) {
	res.Clauses = map[string]int{}
	defer func() {
		if r := recover(); r != nil {
			// a panic of the code under test in the harness goroutine
			res.Violation = fmt.Sprintf("panic while driving the state machine: %v; case=%s", r, c)
		}
	}()
	cfg := c.Cfg
	root, cancelRoot := context.WithCancel(context.Background())
	defer cancelRoot()

	var headers map[string]string
	if cfg.Mode == "cv" {
		headers = map[string]string{
			common.CROSS_VALIDATION_HEADER_MAX_PARTICIPANTS:    fmt.Sprint(cfg.CVMax),
			common.CROSS_VALIDATION_HEADER_AGREEMENT_THRESHOLD: fmt.Sprint(cfg.CVThreshold),
		}
	}
	pm, err := newProtocolMessage(root, c.request(), headers)
	if err != nil {
		res.Inconclusive = "fixture: " + err.Error()
		return
	}
	used := lavasession.NewUsedProviders(pm)
	used.SetChainID("ETH1")
	used.SetEligibilityFunc(relaypolicy.DecideEligibility)
	relayTimeout := time.Hour
	if cfg.RelayTimeoutMs > 0 {
		relayTimeout = time.Duration(cfg.RelayTimeoutMs) * time.Millisecond
	}
	processing := 10 * time.Minute
	if cfg.ProcessingMs > 0 {
		processing = time.Duration(cfg.ProcessingMs) * time.Millisecond
	}
	sender := &senderMock{pm: pm, processingTimeout: processing, relayTimeout: relayTimeout}
	log := &eventLog{emitted: 1}
	handled := &atomic.Int64{}
	var sm relaycore.RelayStateMachine
	maxRetries, sendAttempts := cfg.MaxRetries, cfg.SendRelayAttempts
	if cfg.ViaConsumer {
		sm, err = rpcconsumer.NewRelayStateMachine(root, used, sender, pm, nil, false)
		maxRetries, sendAttempts = rpcconsumer.MaximumNumberOfTickerRelayRetries, rpcconsumer.SendRelayAttempts
	} else {
		pol := &recPolicy{inner: relaypolicy.NewPolicy(relaypolicy.PolicyConfig{
			MaxRetries: cfg.MaxRetries, RelayRetryLimit: cfg.RelayRetryLimit, DisableBatchRetry: cfg.DisableBatchRetry,
			EnableCircuitBreaker: cfg.CircuitBreaker, CircuitBreakerThreshold: cfg.CBThreshold, SendRelayAttempts: cfg.SendRelayAttempts,
		}), log: log, used: used, handled: handled}
		sm, err = relaycore.NewUnifiedRelayStateMachine(root, used, sender, pm, nil, false, relaycore.StateMachineConfig{
			EnableCircuitBreaker: cfg.CircuitBreaker, CircuitBreakerThreshold: cfg.CBThreshold, EnableTimeoutPriority: cfg.TimeoutPriority,
			MaxRetries: cfg.MaxRetries, SendRelayAttempts: cfg.SendRelayAttempts,
		}, pol)
	}
	if err != nil {
		res.Inconclusive = "fixture: state machine: " + err.Error()
		return
	}
	// the mode is a property of the request (spec category / directive headers), not of what the
	// machine makes of it
	isStatefulAPI := chainlib.GetStateful(pm) == common.CONSISTENCY_SELECT_ALL_PROVIDERS
	if isStatefulAPI != (cfg.Mode == "stateful") {
		res.Inconclusive = fmt.Sprintf("fixture: request stateful=%v but mode %s", isStatefulAPI, cfg.Mode)
		return
	}
	rp := relaycore.NewRelayProcessor(root, sm.GetCrossValidationParams(), nil, metricsMock{}, metricsMock{}, c34Retries, sm)
	checker := &recChecker{inner: rp, log: log, ctxCh: make(chan context.Context, 1), delay: time.Duration(cfg.NoticeDelayMs) * time.Millisecond}
	sm.SetResultsChecker(checker)

	ch, err := sm.GetRelayTaskChannel()
	if err != nil {
		res.Inconclusive = "fixture: task channel: " + err.Error()
		return
	}
	// after the case: release a machine that is still blocked on the channel
	defer func() {
		cancelRoot()
		go func() {
			idle := time.NewTimer(300 * time.Millisecond)
			defer idle.Stop()
			for {
				select {
				case <-ch:
				case <-idle.C:
					return
				}
			}
		}()
	}()

	ticker := cfg.RelayTimeoutMs > 0
	period := time.Duration(cfg.RelayTimeoutMs) * time.Millisecond
	quiet := 3*period + 40*time.Millisecond // nothing happened for this long: release a held response
	grace := 3*period + 60*time.Millisecond // observation window after the final instruction
	if !ticker {
		quiet = 400 * time.Millisecond
		grace = 60 * time.Millisecond
	}
	deadline := time.NewTimer(12 * time.Second)
	defer deadline.Stop()

	var (
		instrs        []instrObs
		pending       []pendingResp
		stepIdx       int
		sendIdx       int
		okSends       int
		deliveries    int
		doneSeen      bool
		exitSeen      bool
		procDeadline  bool
		procCtx       context.Context
		procDone      <-chan struct{}
		successAt     = -1 // delivery number that completes success for the mode
		permAt        = -1 // delivery number of the first non-retryable error
		successCounts = map[int]int{}
		executed      []string
		quietFires    int
	)

	updateBatch := func(e error) bool {
		done := make(chan struct{})
		go func() { sm.UpdateBatch(e); close(done) }()
		select {
		case <-done:
			return true
		case <-time.After(5 * time.Second):
			return false
		}
	}
	deliver := func(p pendingResp) {
		resp, perr := buildResponse(p.provider, p.spec, cfg.Batch)
		if resp == nil {
			return
		}
		deliveries++
		switch p.spec.Kind {
		case rSuccess:
			successCounts[p.spec.Payload%len(c34Payloads)]++
			need := 1
			if cfg.Mode == "cv" {
				need = cfg.CVThreshold
			}
			if successAt < 0 && successCounts[p.spec.Payload%len(c34Payloads)] >= need {
				successAt = deliveries
			}
		case rNodeErrPerm, rProtoPerm:
			if permAt < 0 {
				permAt = deliveries
			}
		}
		log.add(logEv{Kind: eDeliver, A: deliveries, S: p.spec.Kind})
		executed = append(executed, "deliver:"+p.spec.Kind)
		used.RemoveUsed(p.provider, lavasession.NewRouterKey(nil), perr)
		rp.SetResponse(resp)
	}
	releaseHeld := func(force bool) bool {
		released := false
		keep := pending[:0]
		for _, p := range pending {
			if p.hold <= 0 || (force && !released) {
				deliver(p)
				released = true
				continue
			}
			keep = append(keep, p)
		}
		pending = keep
		return released
	}

	handle := func(in relaycore.RelayStateSendInstructions) (string, string) {
		var st scriptStep
		if stepIdx < len(c.Steps) {
			st = c.Steps[stepIdx]
		}
		stepIdx++
		providers := in.NumOfProviders
		if cfg.Mode == "stateful" {
			providers = st.Sessions
			if providers < 1 {
				providers = 1
			}
		}
		fail := st.SendFail
		if fail == 0 && cfg.Mode == "cv" && providers < cfg.CVThreshold {
			fail = 2 // the consumer refuses to send with fewer sessions than the threshold
		}
		if fail != 0 {
			e := errors.New("failed sending message")
			if fail == 2 {
				e = lavasession.PairingListEmptyError
			}
			handled.Add(1)
			log.add(logEv{Kind: eHandled, A: len(instrs) - 1, Flag: false})
			executed = append(executed, fmt.Sprintf("send-fail:%d", fail))
			if !updateBatch(e) {
				return "fail", "UpdateBatch blocked"
			}
			return "fail", ""
		}
		sendIdx++
		okSends++
		sessions := lavasession.ConsumerSessionsMap{}
		names := make([]string, providers)
		for j := 0; j < providers; j++ {
			names[j] = fmt.Sprintf("lava@p%d_%d", sendIdx, j)
			sessions[names[j]] = &lavasession.SessionInfo{}
		}
		used.AddUsed(sessions, nil)
		handled.Add(1)
		log.add(logEv{Kind: eHandled, A: len(instrs) - 1, Flag: true})
		executed = append(executed, fmt.Sprintf("send-ok:%d", providers))
		if !updateBatch(nil) {
			return "ok", "UpdateBatch blocked"
		}
		for j := 0; j < providers; j++ {
			spec := resultSpec{Kind: rSuccess}
			if j < len(st.Results) {
				spec = st.Results[j]
			}
			if !ticker && cfg.ProcessingMs == 0 {
				spec.Hold = 0 // nothing would ever wake the machine up
			}
			p := pendingResp{provider: names[j], spec: spec, hold: spec.Hold}
			if p.hold == 0 && cfg.AnswerDelayUs > 0 {
				time.Sleep(time.Duration(cfg.AnswerDelayUs) * time.Microsecond)
			}
			if p.hold == 0 {
				deliver(p)
			} else {
				pending = append(pending, p)
			}
		}
		return "ok", ""
	}

	var graceTimer <-chan time.Time
	quietTimer := time.NewTimer(quiet)
	defer quietTimer.Stop()
	resetQuiet := func() {
		if !quietTimer.Stop() {
			select {
			case <-quietTimer.C:
			default:
			}
		}
		quietTimer.Reset(quiet)
	}

loop:
	for {
		select {
		case in := <-ch:
			final := in.IsDone()
			o := instrObs{Final: final, Providers: in.NumOfProviders, AfterDone: doneSeen, AfterOKSend: okSends > 0}
			if in.Err != nil {
				o.Err = firstLine(in.Err.Error())
			}
			instrs = append(instrs, o)
			log.add(logEv{Kind: eRecv, A: len(instrs) - 1, Flag: final})
			resetQuiet()
			quietFires = 0
			if doneSeen {
				continue // anything after the final instruction is only recorded
			}
			if final {
				doneSeen = true
				graceTimer = time.After(grace)
				continue
			}
			for i := range pending {
				pending[i].hold--
			}
			cur := len(instrs) - 1
			kind, msg := handle(in)
			if msg != "" {
				res.Inconclusive = msg
				return
			}
			instrs[cur].Handled = kind
			releaseHeld(false)
		case pc := <-checker.ctxCh:
			procCtx = pc
			procDone = pc.Done()
		case <-procDone:
			procDone = nil
			if errors.Is(procCtx.Err(), context.DeadlineExceeded) {
				// the machine's own processing deadline: the final instruction follows
				procDeadline = true
				continue
			}
			// cancelled although the case context is alive: the machine goroutine has returned
			exitSeen = true
			for drained := false; !drained; {
				select {
				case in := <-ch:
					o := instrObs{Final: in.IsDone(), Providers: in.NumOfProviders, AfterDone: doneSeen, AfterOKSend: okSends > 0}
					if in.Err != nil {
						o.Err = firstLine(in.Err.Error())
					}
					instrs = append(instrs, o)
					log.add(logEv{Kind: eRecv, A: len(instrs) - 1, Flag: o.Final})
					if o.Final {
						doneSeen = true
					}
				default:
					drained = true
				}
			}
			break loop
		case <-graceTimer:
			break loop
		case <-quietTimer.C:
			quietTimer.Reset(quiet)
			if doneSeen {
				continue
			}
			if len(pending) > 0 {
				releaseHeld(true)
				quietFires = 0
				continue
			}
			quietFires++
			if quietFires >= 4 {
				// nothing is outstanding and nothing arrives
				res.Inconclusive = fmt.Sprintf("no final instruction %v after the last event (all responses delivered); case=%s executed=%v", 4*quiet, c, executed)
				return
			}
		case <-deadline.C:
			res.Inconclusive = fmt.Sprintf("case deadline reached without the machine stopping; case=%s executed=%v", c, executed)
			return
		}
	}

	// ---------------------------------------------------------------- oracle
	log.mu.Lock()
	evs := append([]logEv{}, log.evs...)
	log.mu.Unlock()
	where := func() string {
		var sb strings.Builder
		for i, o := range instrs {
			if i > 0 {
				sb.WriteString(" ")
			}
			if o.Final {
				fmt.Fprintf(&sb, "FINAL(err=%q)", o.Err)
			} else {
				fmt.Fprintf(&sb, "attempt[%s]", o.Handled)
			}
		}
		return fmt.Sprintf("case=%s executed=%v instructions=[%s] exitObserved=%v", c, executed, sb.String(), exitSeen)
	}
	clause := func(n string) { res.Clauses[n]++ }

	// O1 exactly one final instruction, and it is the last thing emitted
	clause("exactly-one-final-instruction")
	finals := 0
	for i, o := range instrs {
		if o.Final {
			finals++
		}
		if o.AfterDone {
			kind := "a new attempt"
			if o.Final {
				kind = "a second final instruction"
			}
			res.Violation = fmt.Sprintf("%s (instruction %d) was emitted after the final instruction; %s", kind, i, where())
			return
		}
	}
	if finals == 0 && exitSeen {
		res.Violation = "the machine stopped (its processing context was released) without emitting a final instruction; " + where()
		return
	}
	if finals == 0 {
		res.Inconclusive = "no final instruction observed; " + where()
		return
	}

	attempts, fails := 0, 0
	for _, o := range instrs {
		if o.Final {
			continue
		}
		attempts++
		if o.Handled == "fail" {
			fails++
		}
	}

	// O3 stateful / cross-validation: nothing is sent again once a send succeeded
	if cfg.Mode != "stateless" {
		clause("no-resend-after-successful-send-stateful-cv")
		for i, o := range instrs {
			if !o.Final && o.AfterOKSend {
				res.Violation = fmt.Sprintf("%s request was sent again (instruction %d) after its send had succeeded; %s", cfg.Mode, i, where())
				return
			}
		}
	}

	// positions in the log
	idxConsumed := func(n int) int { // first "consumed" event that covers delivery n
		if n < 0 {
			return -1
		}
		for i, e := range evs {
			if e.Kind == eConsumed && e.A >= n {
				return i
			}
		}
		return -1
	}
	// a decision counts from the moment the machine started to read the summary for it
	decisionStart := func(i int) int {
		for j := i - 1; j >= 0; j-- {
			if evs[j].Kind == eSummaryRead {
				return j
			}
			if evs[j].Kind == eDecide {
				break
			}
		}
		return i
	}

	if !cfg.ViaConsumer {
		// O4 (log): once a non-retryable error is stored, no decision asks for another attempt
		if at := idxConsumed(permAt); at >= 0 {
			clause("no-retry-after-non-retryable-error")
			for i, e := range evs {
				if e.Kind == eDecide && e.Flag && decisionStart(i) > at {
					res.Violation = fmt.Sprintf("a new attempt was decided (reason %q, attempt %d, ticker=%v) after a non-retryable error had been stored; %s", e.S, e.B, e.Flag2, where())
					return
				}
			}
		}
		// O2: a retry decision whose own input (the summary the machine read for this very
		// decision) already shows the successful result. This is the "observed" criterion: a tick
		// that is handled before the result is stored sees SuccessCount 0 and is not counted.
		if cfg.Mode == "stateless" && c34EnforceD5 {
			late := 0
			for _, e := range evs {
				if e.Kind == eDecide && e.Flag && e.In.Summary.SuccessCount >= 1 {
					late++
					if !excludeHedge {
						clause("no-new-attempt-after-observed-successful-result")
						res.Violation = fmt.Sprintf("a new attempt was decided (reason %q, attempt %d, ticker=%v) although the results summary read for this decision already showed %d successful result(s); %s", e.S, e.B, e.Flag2, e.In.Summary.SuccessCount, where())
						return
					}
				}
			}
			if late > 0 {
				res.Classes = append(res.Classes, "excluded:"+findingHedgeAfterSuccess)
			}
		}
		// independent of the finding: once the machine has been TOLD that the required results are
		// there (gotResults), a tick can be picked by the select a few times at most
		if successAt >= 0 {
			clause("bounded-attempts-after-success-was-reported")
			noticed := -1
			for i, e := range evs {
				if e.Kind == eNoticed && e.Flag {
					noticed = i
					break
				}
			}
			if noticed >= 0 {
				n := 0
				for i, e := range evs {
					if e.Kind == eDecide && e.Flag && i > noticed {
						n++
					}
				}
				if n > 3 {
					// not a verdict: on a loaded machine the goroutine that reports the success can
					// be descheduled for several tick periods
					res.Classes = append(res.Classes, "several-ticks-overtook-reported-success")
				}
			}
		}
		// every decision the machine asked for obeys the table (inputs as really built by the machine)
		for _, e := range evs {
			if e.Kind != eDecide || !e.Flag {
				continue
			}
			clause("machine-decisions-obey-decision-table")
			pc := relaypolicy.PolicyConfig{MaxRetries: cfg.MaxRetries}
			if rule := mustStop(pc, e.In, false); rule != "" {
				res.Violation = fmt.Sprintf("the machine got a retry decision where the statement forbids it (%s): input=%s; %s", rule, showInput(pc, e.In), where())
				return
			}
		}
	}

	// O5 bounds
	unclean, retryDecisions := 0, 0
	for _, e := range evs {
		if e.Kind == eDecide && e.Flag {
			retryDecisions++
			if !e.Clean {
				unclean++
			}
		}
	}
	maxOK := maxRetries
	if maxOK < 1 {
		maxOK = 1
	}
	clause("attempts-within-configured-maximum")
	allowOK := maxOK
	if ticker {
		allowOK += unclean // decisions taken while an instruction was still on its way
	}
	if okSends > allowOK {
		res.Violation = fmt.Sprintf("%d relay attempts were sent, configured maximum %d (allowance for overtaken decisions %d); %s", okSends, maxOK, allowOK-maxOK, where())
		return
	}
	clause("send-failure-retries-within-allowance")
	run, worst := 0, 0
	for _, o := range instrs {
		if o.Final {
			continue
		}
		if o.Handled == "fail" {
			run++
			if run > worst {
				worst = run
			}
		} else {
			run = 0
		}
	}
	allowRun := sendAttempts + 1
	if ticker {
		allowRun += retryDecisions // a retry decision re-opens sending independently of the failure counter
	}
	if worst > allowRun {
		res.Violation = fmt.Sprintf("%d consecutive failed sends were each followed by another attempt; allowed send-failure retries %d (so at most %d failed sends in a row, allowance %d); %s",
			worst, sendAttempts, sendAttempts+1, allowRun-(sendAttempts+1), where())
		return
	}

	if !ticker {
		// sequential family: every instruction is a reaction to the harness, so the stream itself
		// must obey the rules exactly
		clause("sequential:no-attempt-after-success-or-non-retryable")
		seenDeliver := 0
		stopAfter := -1
		stopWhy := ""
		for _, e := range evs {
			switch e.Kind {
			case eDeliver:
				seenDeliver = e.A
				if stopAfter < 0 && successAt >= 0 && seenDeliver >= successAt {
					stopAfter, stopWhy = seenDeliver, "a successful result"
				}
				if stopAfter < 0 && permAt >= 0 && seenDeliver >= permAt && cfg.Mode == "stateless" {
					stopAfter, stopWhy = seenDeliver, "a non-retryable error"
				}
			case eRecv:
				if stopAfter >= 0 && !e.Flag {
					res.Violation = fmt.Sprintf("a new attempt (instruction %d) was started after %s had been delivered; %s", e.A, stopWhy, where())
					return
				}
			}
		}
		clause("sequential:total-attempts-bounded")
		if attempts > maxOK*(sendAttempts+1)+sendAttempts+1 {
			res.Violation = fmt.Sprintf("%d attempts in total, configured maximum %d and %d allowed send-failure retries per attempt; %s", attempts, maxOK, sendAttempts, where())
			return
		}
	}

	// ---------------------------------------------------------------- evidence
	cl := []string{"mode=" + cfg.Mode}
	if ticker {
		cl = append(cl, "family=ticker")
	} else {
		cl = append(cl, "family=sequential")
	}
	if cfg.ViaConsumer {
		cl = append(cl, "built-by-rpcconsumer.NewRelayStateMachine")
	}
	if exitSeen {
		cl = append(cl, "machine-exit-observed")
	}
	if procDeadline {
		cl = append(cl, "processing-deadline-hit")
	}
	if fails > 0 {
		cl = append(cl, "has-send-failure")
	}
	if worst == sendAttempts+1 {
		cl = append(cl, "send-failure-run-at-limit")
	}
	if okSends >= maxOK {
		cl = append(cl, "attempts-at-configured-maximum")
	}
	if successAt >= 0 {
		cl = append(cl, "ended-with-success-delivered")
	}
	if permAt >= 0 {
		cl = append(cl, "non-retryable-error-delivered")
	}
	tickRetries := 0
	for _, e := range evs {
		if e.Kind == eDecide && e.Flag && e.Flag2 {
			tickRetries++
		}
	}
	if tickRetries > 0 {
		cl = append(cl, "ticker-hedge-attempt")
	}
	if unclean > 0 {
		cl = append(cl, "decision-overtook-instruction")
	}
	for _, o := range instrs {
		if o.Final {
			if o.Err != "" {
				cl = append(cl, "final-with-error")
			} else {
				cl = append(cl, "final-without-error")
			}
		}
	}
	res.Classes = append(res.Classes, cl...)
	// non-trivial: some failure (send failure, node/protocol error) was followed by a tick or result
	sawFailure := false
	for _, x := range executed {
		if sawFailure {
			res.Nontrivial = true
			break
		}
		if strings.HasPrefix(x, "send-fail") || (strings.HasPrefix(x, "deliver:") && x != "deliver:"+rSuccess) {
			sawFailure = true
		}
	}
	if !res.Nontrivial && sawFailure && tickRetries > 0 {
		res.Nontrivial = true
	}
	res.Summary = fmt.Sprintf("%+v|%v", cfg, executed)
	return res
}

func (c *c34Case) String() string {
	var sb strings.Builder
	fmt.Fprintf(&sb, "%+v steps=[", c.Cfg)
	for i, s := range c.Steps {
		if i > 0 {
			sb.WriteString(" ")
		}
		if s.SendFail != 0 {
			fmt.Fprintf(&sb, "fail%d", s.SendFail)
			continue
		}
		sb.WriteString("ok(")
		for j, r := range s.Results {
			if j > 0 {
				sb.WriteString(",")
			}
			fmt.Fprintf(&sb, "%s/%d", r.Kind, r.Payload)
			if r.Hold > 0 {
				fmt.Fprintf(&sb, "@+%d", r.Hold)
			}
		}
		sb.WriteString(")")
	}
	sb.WriteString("]")
	return sb.String()
}

// ---- generation ------------------------------------------------------------------------------------

func genC34Case(t *rapid.T, label string) *c34Case {
	c := &c34Case{}
	cfg := &c.Cfg
	cfg.Mode = rapid.SampledFrom([]string{"stateless", "stateless", "stateless", "stateful", "cv"}).Draw(t, label+"mode")
	family := rapid.SampledFrom([]string{"seq", "seq", "tick", "tick", "consumer"}).Draw(t, label+"family")
	cfg.MaxRetries = rapid.SampledFrom([]int{1, 2, 3, 4, 6, 10}).Draw(t, label+"maxRetries")
	cfg.SendRelayAttempts = rapid.IntRange(0, 3).Draw(t, label+"sendRelayAttempts")
	cfg.RelayRetryLimit = rapid.SampledFrom([]int{0, 1, 2, 4, 12}).Draw(t, label+"relayRetryLimit")
	if cfg.Mode == "cv" {
		cfg.CVThreshold = rapid.IntRange(1, 3).Draw(t, label+"cvThreshold")
		cfg.CVMax = cfg.CVThreshold + rapid.IntRange(0, 2).Draw(t, label+"cvExtra")
	}
	switch family {
	case "tick":
		cfg.RelayTimeoutMs = rapid.SampledFrom([]int{10, 15, 20, 30}).Draw(t, label+"relayTimeoutMs")
		if rapid.IntRange(0, 3).Draw(t, label+"shortProcessing") == 0 {
			cfg.ProcessingMs = rapid.SampledFrom([]int{40, 60, 100, 150}).Draw(t, label+"processingMs")
		}
	case "seq":
		if rapid.IntRange(0, 7).Draw(t, label+"shortProcessing") == 0 {
			// no ticker, but held-back answers let the machine run into its processing deadline
			cfg.ProcessingMs = rapid.SampledFrom([]int{40, 60, 100}).Draw(t, label+"processingMs")
		}
	case "consumer":
		cfg.ViaConsumer = true
		cfg.MaxRetries, cfg.SendRelayAttempts, cfg.RelayRetryLimit = rpcconsumer.MaximumNumberOfTickerRelayRetries, rpcconsumer.SendRelayAttempts, relaycore.RelayRetryLimit
	}
	if !cfg.ViaConsumer {
		cfg.TimeoutPriority = rapid.Bool().Draw(t, label+"timeoutPriority")
		if rapid.IntRange(0, 3).Draw(t, label+"breaker") == 0 {
			cfg.CircuitBreaker = true
			cfg.CBThreshold = rapid.IntRange(1, 3).Draw(t, label+"breakerThreshold")
		}
		if cfg.Mode == "stateless" && rapid.IntRange(0, 5).Draw(t, label+"batchRequest") == 0 {
			cfg.Batch = true
			cfg.DisableBatchRetry = rapid.Bool().Draw(t, label+"disableBatchRetry")
		}
	}
	// script shapes
	shape := rapid.SampledFrom([]string{"mixed", "mixed", "send-failures", "retry-chain", "epoch-chain", "quick-success", "perm-error"}).Draw(t, label+"shape")
	nSteps := rapid.IntRange(0, 14).Draw(t, label+"steps")
	if shape == "epoch-chain" || shape == "retry-chain" {
		nSteps = rapid.IntRange(cfg.MaxRetries, cfg.MaxRetries+4).Draw(t, label+"chainSteps")
	}
	holdGen := func(l string) int {
		if cfg.RelayTimeoutMs == 0 && cfg.ProcessingMs == 0 {
			return 0
		}
		return rapid.SampledFrom([]int{0, 0, 1, 1, 2, 3}).Draw(t, l)
	}
	kindFor := func(l string) string {
		switch shape {
		case "retry-chain":
			return rapid.SampledFrom([]string{rNodeErr, rNodeErr, rProtoErr, rEpoch}).Draw(t, l)
		case "epoch-chain":
			return rapid.SampledFrom([]string{rEpoch, rEpoch, rEpoch, rNodeErr}).Draw(t, l)
		case "quick-success":
			return rapid.SampledFrom([]string{rSuccess, rSuccess, rNodeErr}).Draw(t, l)
		case "perm-error":
			return rapid.SampledFrom([]string{rNodeErrPerm, rProtoPerm, rNodeErr, rEpoch, rSuccess}).Draw(t, l)
		}
		return rapid.SampledFrom([]string{rSuccess, rNodeErr, rNodeErr, rNodeErrPerm, rProtoErr, rProtoErr, rProtoPerm, rEpoch, rEpoch}).Draw(t, l)
	}
	for i := 0; i < nSteps; i++ {
		var st scriptStep
		failW := 25
		switch shape {
		case "send-failures":
			failW = 75
		case "retry-chain", "epoch-chain":
			failW = 10
		case "quick-success":
			failW = 15
		}
		if rapid.IntRange(0, 99).Draw(t, label+"failDraw") < failW {
			st.SendFail = rapid.SampledFrom([]int{1, 1, 2}).Draw(t, label+"failKind")
		} else {
			n := 1
			switch cfg.Mode {
			case "cv":
				n = cfg.CVMax
			case "stateful":
				st.Sessions = rapid.IntRange(1, 3).Draw(t, label+"sessions")
				n = st.Sessions
			}
			agree := rapid.IntRange(0, 2).Draw(t, label+"agreePayload")
			for j := 0; j < n; j++ {
				r := resultSpec{Kind: kindFor(label + "kind"), Hold: holdGen(label + "hold")}
				if r.Kind == rSuccess {
					r.Payload = agree
					if cfg.Mode == "cv" && rapid.IntRange(0, 2).Draw(t, label+"disagree") == 0 {
						r.Payload = rapid.IntRange(0, 2).Draw(t, label+"payload")
					}
				} else {
					r.Payload = rapid.IntRange(0, 1).Draw(t, label+"variant")
				}
				st.Results = append(st.Results, r)
			}
		}
		c.Steps = append(c.Steps, st)
	}
	return c
}

func c34Parallel() int {
	if os.Getenv("VERIF_TIER") == "thorough" {
		return 6
	}
	return 6
}

func propC34Machine(t *rapid.T) {
	col := ev.For("C34")
	exclude := ev.Excluded(findingHedgeAfterSuccess)
	k := c34Parallel()
	cases := make([]*c34Case, k)
	for i := range cases {
		cases[i] = genC34Case(t, fmt.Sprintf("c%d.", i))
	}
	results := make([]c34Result, k)
	var wg sync.WaitGroup
	for i := range cases {
		wg.Add(1)
		go func(i int) {
			defer wg.Done()
			results[i] = runC34(cases[i], exclude)
		}(i)
	}
	wg.Wait()
	for _, r := range results {
		for n, cnt := range r.Clauses {
			col.ClauseN(n, cnt)
		}
	}
	// violations first: a harness problem in one sub-case must not hide a violation in another
	for _, r := range results {
		if r.Violation != "" {
			t.Fatalf("%s", ev.Violation("C34", "%s", r.Violation))
		}
	}
	for i, r := range results {
		if r.Inconclusive != "" {
			col.Class("inconclusive-case")
			col.AddExtra("inconclusive_cases", 1)
			col.SetExtra("last_inconclusive", firstLine(r.Inconclusive))
			if strings.HasPrefix(r.Inconclusive, "fixture") {
				t.Fatalf("%s", ev.HarnessError("C34: %s", r.Inconclusive))
			}
			c34Inconclusive.Add(1)
			continue
		}
		for _, cl := range r.Classes {
			if strings.HasPrefix(cl, "excluded:") {
				col.Exclude(strings.TrimPrefix(cl, "excluded:"))
			}
		}
		col.Case(r.Nontrivial, r.Summary, r.Classes...)
		if r.Nontrivial {
			col.Sample(cases[i])
		}
		c34Done.Add(1)
	}
}

var c34Done, c34Inconclusive atomic.Int64

func TestC34Machine(t *testing.T) {
	col := ev.For("C34")
	col.SetRule("a case = state machine configuration (selection mode stateless/stateful/cross-validation, MaxRetries, SendRelayAttempts, error tolerance, circuit breaker, timeout priority, relay timeout: none or 10-30 ms ticker, processing timeout, built directly or through rpcconsumer.NewRelayStateMachine) + event script (per instruction: send fails / pairing list empty / send succeeds and each provider answers success, retryable or non-retryable node error, retryable or permanent protocol error, epoch mismatch, now or held back for later instructions/ticks); the harness plays the consumer on the relay task channel; non-trivial = a failure (send failure, node or protocol error) is followed by another tick, instruction or result; distinct = configuration + executed event sequence. The pure policy functions are enumerated separately (TestC34Decide, TestC34Send)")
	col.Assume(
		"the consumer handles every non-final instruction by sending (UsedProviders.AddUsed on success) and reporting through UpdateBatch, stops reading at the final instruction, and every provider that was sent to answers exactly once (possibly late), as rpcconsumer.ProcessRelaySend / sendRelayToProvider do",
		"attempt = non-final instruction; configured maximum = MaxRetries (consumer: MaximumNumberOfTickerRelayRetries = 10) successful sends, at least one; allowed send-failure retries = SendRelayAttempts (consumer: 3) re-sends per run of consecutive send failures",
		"the relay task channel is never closed by the machine; 'stops' is observed as: no instruction after the final one during a grace period and, where visible, release of the processing context handed to the results checker",
		"ticker family: a decision taken while an earlier instruction has not been handled yet (or a tick that overtakes a stored result, known finding c34-hedge-after-success) may add one attempt each; such decisions are identified on a logical event log, never by wall-clock comparison",
		"a case that does not finish within its deadline is inconclusive and is not counted",
	)
	rapid.Check(t, propC34Machine)
	done, inc := c34Done.Load(), c34Inconclusive.Load()
	col.SetExtra("machine_cases_decided", int(done))
	if inc*10 > done+inc && inc > 5 {
		t.Fatalf("%s", ev.HarnessError("C34: %d of %d machine cases were inconclusive (deadlines)", inc, done+inc))
	}
}

// TestC34Demo_hedge_after_success_machine shows finding c34-hedge-after-success on the state
// machine itself (not run by the driver; timing is generous but it is a demonstration, not the
// witness): the successful result is stored, the goroutine that reports it is slow, the ticker
// fires and the machine emits new attempts although the successful result is already there.
func TestC34Demo_hedge_after_success_machine(t *testing.T) {
	c := &c34Case{
		Cfg:   smConfig{Mode: "stateless", MaxRetries: 10, SendRelayAttempts: 3, RelayRetryLimit: 2, RelayTimeoutMs: 10, NoticeDelayMs: 45},
		Steps: []scriptStep{{Results: []resultSpec{{Kind: rSuccess}}}},
	}
	r := runC34(c, false)
	t.Logf("violation=%q inconclusive=%q classes=%v", r.Violation, r.Inconclusive, r.Classes)
	if r.Violation == "" {
		t.Skip("the schedule did not produce the hedge this time")
	}
	if !strings.Contains(r.Violation, "already showed") {
		t.Fatalf("unexpected violation: %s", r.Violation)
	}
}

// TestC34Demo_hedge_after_success_natural looks for the same schedule without any artificial
// delay in the machine's collaborators: only the provider latency is swept around the tick time.
// Not run by the driver.
func TestC34Demo_hedge_after_success_natural(t *testing.T) {
	var hits, runs atomic.Int64
	var first atomic.Value
	var wg sync.WaitGroup
	for w := 0; w < 8; w++ {
		wg.Add(1)
		go func(w int) {
			defer wg.Done()
			for i := 0; i < 250; i++ {
				c := &c34Case{
					Cfg:   smConfig{Mode: "stateless", MaxRetries: 10, SendRelayAttempts: 3, RelayRetryLimit: 2, RelayTimeoutMs: 10, AnswerDelayUs: 9000 + (i*8+w)%2000},
					Steps: []scriptStep{{Results: []resultSpec{{Kind: rSuccess}}}},
				}
				r := runC34(c, false)
				runs.Add(1)
				if strings.Contains(r.Violation, "already showed") {
					hits.Add(1)
					first.CompareAndSwap(nil, r.Violation)
				}
			}
		}(w)
	}
	wg.Wait()
	t.Logf("runs=%d hits=%d first=%v", runs.Load(), hits.Load(), first.Load())
}
