package relayproc

import (
	"errors"
	"fmt"
	"testing"

	"github.com/lavanet/lava/v5/protocol/lavasession"
	"github.com/lavanet/lava/v5/protocol/relaycore"
	"github.com/lavanet/lava/v5/protocol/relaypolicy"
	"pgregory.net/rapid"

	"verifharness/internal/ev"
)

// ---- C34 (a): the pure decision functions against the decision table of the statement ----------
//
// The statement gives one-sided rules ("never ...", "no more than ..."), so the table only says
// when the policy MUST NOT ask for another attempt:
//   D1  stateful or cross-validation request            -> never Retry (their send succeeded or
//                                                          is re-sent only through the send path)
//   D2  a non-retryable node error was seen             -> never Retry
//   D3  a permanent protocol error was seen             -> never Retry
//   D4  attempts made >= configured maximum             -> never Retry
//   D5  a successful result is already there (stateless)-> never Retry   (known-finding class
//                                                          c34-hedge-after-success, see below)
//   S1  send succeeded (err == nil)                     -> never SendRetry
//   S2  k-th consecutive send failure, k > SendRelayAttempts -> never SendRetry
//   P   Decide is pure: same input, same output; it does not touch the send-failure counter.

const findingHedgeAfterSuccess = "c34-hedge-after-success"

// c34EnforceD5 switches rule D5 (and its machine-level twin) on. If the coordinator rejects finding
// c34-hedge-after-success as demanding more than the statement, set this to false and drop the
// entry from known_findings.json; nothing else depends on it.
const c34EnforceD5 = true

// mustStop returns the rule that forbids Retry for this input, or "".
func mustStop(cfg relaypolicy.PolicyConfig, in relaycore.DecisionInput, withD5 bool) string {
	switch {
	case in.Selection == relaycore.CrossValidation:
		return "D1 cross-validation requests are never re-sent"
	case in.Selection == relaycore.Stateful:
		return "D1 stateful requests are never re-sent"
	case in.Summary.HasNonRetryableNodeError:
		return "D2 no retry after a non-retryable node error"
	case in.Summary.HasPermanentProtocolError:
		return "D3 no retry after a permanent protocol error"
	case in.AttemptNumber >= cfg.MaxRetries:
		return "D4 attempts already at the configured maximum"
	case withD5 && in.Summary.SuccessCount >= 1:
		return "D5 no new attempt after a successful result"
	}
	return ""
}

func showInput(cfg relaypolicy.PolicyConfig, in relaycore.DecisionInput) string {
	arch := "nil"
	if in.ArchiveStatus != nil {
		arch = fmt.Sprintf("{archive:%v upgraded:%v}", in.ArchiveStatus.IsArchive(), in.ArchiveStatus.IsUpgraded())
	}
	return fmt.Sprintf("config=%+v input={Selection:%d Attempt:%d IsBatch:%v Summary:%+v Archive:%s NodeErrors:%d Ticker:%v}",
		cfg, in.Selection, in.AttemptNumber, in.IsBatch, in.Summary, arch, in.NodeErrors, in.IsTickerHedge)
}

func archiveVariants() []*relaycore.ArchiveStatus {
	a1 := &relaycore.ArchiveStatus{}
	a2 := &relaycore.ArchiveStatus{}
	a2.SetArchive(true)
	a3 := &relaycore.ArchiveStatus{}
	a3.SetArchive(true)
	a3.SetUpgraded(true)
	return []*relaycore.ArchiveStatus{nil, a1, a2, a3}
}

// TestC34Decide enumerates the whole (bounded) input space of Policy.Decide.
func TestC34Decide(t *testing.T) {
	col := ev.For("C34")
	withD5 := c34EnforceD5 && !ev.Excluded(findingHedgeAfterSuccess)
	hashErr := errors.New("hash failed")
	archs := archiveVariants()
	bools := []bool{false, true}
	total := 0
	for _, maxRetries := range []int{0, 1, 2, 3, 10} {
		for _, retryLimit := range []int{0, 2, 5} {
			for _, disableBatch := range bools {
				cfg := relaypolicy.PolicyConfig{MaxRetries: maxRetries, RelayRetryLimit: retryLimit, DisableBatchRetry: disableBatch, SendRelayAttempts: 3}
				p := relaypolicy.NewPolicy(cfg)
				// give the send-failure counter a non-zero value that Decide must leave alone
				p.OnSendRelayResult(errors.New("x"), false)
				for _, sel := range []relaycore.Selection{relaycore.Stateless, relaycore.Stateful, relaycore.CrossValidation} {
					for attempt := 0; attempt <= maxRetries+2 && attempt <= 12; attempt++ {
						for _, isBatch := range bools {
							for _, ticker := range bools {
								for flags := 0; flags < 32; flags++ {
									nonRetry, unsupported, permanent, epoch, hashBad := flags&1 != 0, flags&2 != 0, flags&4 != 0, flags&8 != 0, flags&16 != 0
									if unsupported && !nonRetry {
										continue // unsupported method is a sub-class of non-retryable
									}
									for _, success := range []int{0, 1, 3} {
										for _, errs := range [][3]int{{0, 0, 0}, {1, 0, 0}, {0, 0, 1}, {2, 1, 0}, {3, 0, 3}} {
											for ai, arch := range archs {
												in := relaycore.DecisionInput{
													Selection: sel, AttemptNumber: attempt, IsBatch: isBatch, IsTickerHedge: ticker,
													ArchiveStatus: arch, NodeErrors: uint64(errs[0]),
													Summary: relaycore.ResultsSummary{
														SuccessCount: success, NodeErrors: errs[0], SpecialNodeErrors: errs[1], ProtocolErrors: errs[2],
														HasNonRetryableNodeError: nonRetry, HasUnsupportedMethod: unsupported,
														HasPermanentProtocolError: permanent, HasEpochMismatch: epoch,
													},
												}
												if hashBad {
													in.Summary.HashErr = hashErr
												}
												out := p.Decide(in)
												total++
												rule := mustStop(cfg, in, withD5)
												if rule != "" && out.Action == relaycore.ActionRetry {
													t.Fatalf("%s", ev.Violation("C34", "Policy.Decide asks for a new attempt (reason %q) where the statement forbids it (%s): %s", out.Reason, rule, showInput(cfg, in)))
												}
												if !withD5 && sel == relaycore.Stateless && success >= 1 && mustStop(cfg, in, true) != "" && mustStop(cfg, in, false) == "" {
													col.Exclude(findingHedgeAfterSuccess)
												}
												if ai == 0 && errs[0] == 0 {
													// purity (sampled to keep the loop cheap)
													out2 := p.Decide(in)
													if out2 != out || p.GetConsecutiveBatchErrors() != 1 {
														t.Fatalf("%s", ev.Violation("C34", "Policy.Decide is not a pure function of its input: first %+v, second %+v, send-failure counter %d (expected 1): %s", out, out2, p.GetConsecutiveBatchErrors(), showInput(cfg, in)))
													}
												}
											}
										}
									}
								}
							}
						}
					}
				}
			}
		}
	}
	col.ClauseN("decide-never-retries-where-statement-forbids", total)
	col.AddExtra("decide_inputs_enumerated", total)
	col.Class("policy-decide-enumeration")
}

// sendEvent: 0 = send succeeded, 1 = send failed, 2 = send failed with pairing-list-empty
func sendErr(e int) (error, bool) {
	switch e {
	case 1:
		return errors.New("failed sending message"), false
	case 2:
		return lavasession.PairingListEmptyError, true
	}
	return nil, false
}

// checkSendSequence runs one history through a fresh policy and applies S1/S2.
func checkSendSequence(cfg relaypolicy.PolicyConfig, seq []int) (violation string, retries int, stops int) {
	p := relaypolicy.NewPolicy(cfg)
	consecutive := 0
	for i, e := range seq {
		err, empty := sendErr(e)
		res := p.OnSendRelayResult(err, empty)
		if err == nil {
			consecutive = 0
			if res == relaycore.SendRetry {
				return fmt.Sprintf("OnSendRelayResult asks to re-send after a successful send (S1): config=%+v history=%v position=%d", cfg, seq, i), retries, stops
			}
			continue
		}
		consecutive++
		if res == relaycore.SendRetry {
			retries++
			if consecutive > cfg.SendRelayAttempts {
				return fmt.Sprintf("OnSendRelayResult allows re-send number %d after %d consecutive send failures, allowed %d (S2): config=%+v history=%v position=%d",
					consecutive, consecutive, cfg.SendRelayAttempts, cfg, seq, i), retries, stops
			}
		}
		if res == relaycore.SendStop {
			stops++
		}
	}
	return "", retries, stops
}

// TestC34Send enumerates all send histories up to length 7 over {ok, fail, pairing-empty} for a
// grid of configurations, and draws longer ones.
func TestC34Send(t *testing.T) {
	col := ev.For("C34")
	total := 0
	var cfgs []relaypolicy.PolicyConfig
	for attempts := 0; attempts <= 4; attempts++ {
		cfgs = append(cfgs, relaypolicy.PolicyConfig{MaxRetries: 10, RelayRetryLimit: 2, SendRelayAttempts: attempts})
		for thr := 0; thr <= 3; thr++ {
			cfgs = append(cfgs, relaypolicy.PolicyConfig{MaxRetries: 10, RelayRetryLimit: 2, SendRelayAttempts: attempts, EnableCircuitBreaker: true, CircuitBreakerThreshold: thr})
		}
	}
	for _, cfg := range cfgs {
		for length := 1; length <= 7; length++ {
			n := 1
			for i := 0; i < length; i++ {
				n *= 3
			}
			seq := make([]int, length)
			for code := 0; code < n; code++ {
				c := code
				for i := 0; i < length; i++ {
					seq[i] = c % 3
					c /= 3
				}
				total++
				if v, _, _ := checkSendSequence(cfg, seq); v != "" {
					t.Fatalf("%s", ev.Violation("C34", "%s", v))
				}
			}
		}
	}
	col.ClauseN("send-failure-retries-bounded", total)
	col.AddExtra("send_histories_enumerated", total)
	col.Class("policy-send-enumeration")
	rapid.Check(t, func(rt *rapid.T) {
		cfg := relaypolicy.PolicyConfig{
			MaxRetries: 10, RelayRetryLimit: 2,
			SendRelayAttempts:       rapid.IntRange(0, 6).Draw(rt, "sendRelayAttempts"),
			EnableCircuitBreaker:    rapid.Bool().Draw(rt, "breaker"),
			CircuitBreakerThreshold: rapid.IntRange(0, 4).Draw(rt, "breakerThreshold"),
		}
		seq := rapid.SliceOfN(rapid.SampledFrom([]int{1, 1, 1, 2, 2, 0}), 8, 40).Draw(rt, "history")
		v, _, _ := checkSendSequence(cfg, seq)
		col.Clause("send-failure-retries-bounded")
		if v != "" {
			rt.Fatalf("%s", ev.Violation("C34", "%s", v))
		}
	})
}

// TestC34Known_hedge_after_success is the witness of finding c34-hedge-after-success: with a
// successful result already recorded, a ticker-driven decision still asks for a new attempt.
// It fails (with a violation message) while the defect exists.
func TestC34Known_hedge_after_success(t *testing.T) {
	cfg := relaypolicy.PolicyConfig{MaxRetries: 10, RelayRetryLimit: 2, DisableBatchRetry: true, SendRelayAttempts: 3}
	in := relaycore.DecisionInput{
		Selection: relaycore.Stateless, AttemptNumber: 1, IsTickerHedge: true,
		ArchiveStatus: &relaycore.ArchiveStatus{},
		Summary:       relaycore.ResultsSummary{SuccessCount: 1},
	}
	out := relaypolicy.NewPolicy(cfg).Decide(in)
	if c34EnforceD5 && out.Action == relaycore.ActionRetry {
		t.Fatalf("%s", ev.Violation("C34", "Policy.Decide asks for a new attempt (reason %q) although a successful result is already recorded (D5): %s", out.Reason, showInput(cfg, in)))
	}
}
