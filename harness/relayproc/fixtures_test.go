package relayproc

import (
	"context"
	"fmt"
	"net/http"
	"os"
	"sync"
	"time"

	"github.com/lavanet/lava/v5/protocol/chainlib"
	"github.com/lavanet/lava/v5/protocol/chainlib/extensionslib"
	"github.com/lavanet/lava/v5/protocol/common"
	"github.com/lavanet/lava/v5/protocol/lavaprotocol"
	"github.com/lavanet/lava/v5/protocol/lavasession"
	"github.com/lavanet/lava/v5/protocol/relaycore"
	keepertest "github.com/lavanet/lava/v5/utils/keeper"
	pairingtypes "github.com/lavanet/lava/v5/x/pairing/types"
	spectypes "github.com/lavanet/lava/v5/x/spec/types"
)

// ---- chain parsers (real spec, real parser; built once per process) ----------------------------

type parserKey struct{ spec, iface string }

var (
	parserMu sync.Mutex
	parsers  = map[parserKey]chainlib.ChainParser{}
)

func repoRoot() string {
	r := os.Getenv("VERIF_REPO")
	if r == "" {
		r = "/repo"
	}
	return r + "/"
}

func getParser(specID, apiInterface string) (chainlib.ChainParser, error) {
	parserMu.Lock()
	defer parserMu.Unlock()
	k := parserKey{specID, apiInterface}
	if p, ok := parsers[k]; ok {
		return p, nil
	}
	spec, err := keepertest.GetASpec(specID, repoRoot(), nil, nil)
	if err != nil {
		return nil, fmt.Errorf("spec %s: %w", specID, err)
	}
	p, err := chainlib.NewChainParser(apiInterface)
	if err != nil {
		return nil, err
	}
	p.SetSpec(spec)
	parsers[k] = p
	return p, nil
}

// request describes one consumer request used as the relay's chain message.
type request struct {
	Spec, Iface, URL, Body, Method string
}

var (
	reqEthBlockNumber = request{"ETH1", spectypes.APIInterfaceJsonRPC, "", `{"jsonrpc":"2.0","id":1,"method":"eth_blockNumber","params":[]}`, http.MethodPost}
	reqEthGetBalance  = request{"ETH1", spectypes.APIInterfaceJsonRPC, "", `{"jsonrpc":"2.0","id":1,"method":"eth_getBalance","params":["0x407d73d8a49eeb85d32cf465507dd71d507100c1","0x10"]}`, http.MethodPost}
	reqEthSendRawTx   = request{"ETH1", spectypes.APIInterfaceJsonRPC, "", `{"jsonrpc":"2.0","id":1,"method":"eth_sendRawTransaction","params":["0xd46e8dd67c5d32be8d46e8dd67c5d32be8058bb8eb970870f072445675058bb8eb970870f072445675"]}`, http.MethodPost}
	reqEthBatch       = request{"ETH1", spectypes.APIInterfaceJsonRPC, "", `[{"jsonrpc":"2.0","id":1,"method":"eth_chainId"},{"jsonrpc":"2.0","id":2,"method":"eth_blockNumber"}]`, http.MethodPost}
	reqLavaRestBlock  = request{"LAV1", spectypes.APIInterfaceRest, "/cosmos/base/tendermint/v1beta1/blocks/17", "", http.MethodGet}
)

// newProtocolMessage parses the request with the real chain parser of the spec.
func newProtocolMessage(ctx context.Context, rq request, directiveHeaders map[string]string) (chainlib.ProtocolMessage, error) {
	p, err := getParser(rq.Spec, rq.Iface)
	if err != nil {
		return nil, err
	}
	var body []byte
	if rq.Body != "" {
		body = []byte(rq.Body)
	}
	chainMsg, err := p.ParseMsg(rq.URL, body, rq.Method, nil, extensionslib.ExtensionInfo{LatestBlock: 0})
	if err != nil {
		return nil, err
	}
	reqBlock, _ := chainMsg.RequestedBlock()
	relayData := lavaprotocol.NewRelayData(ctx, rq.Method, rq.URL, body, 0, reqBlock, rq.Iface, chainMsg.GetRPCMessage().GetHeaders(), chainlib.GetAddon(chainMsg), common.GetExtensionNames(chainMsg.GetExtensions()))
	return chainlib.NewProtocolMessage(chainMsg, directiveHeaders, relayData, "dapp", "10.0.0.1"), nil
}

// ---- mocks -------------------------------------------------------------------------------------

type metricsMock struct{}

func (metricsMock) SetRelayNodeErrorMetric(chainId, apiInterface, providerAddress, method string) {}
func (metricsMock) GetChainIdAndApiInterface() (string, string)                                  { return "ETH1", "jsonrpc" }

// fixedStateMachine is the RelayStateMachine a RelayProcessor needs when only the results side is
// exercised (C33): it never schedules anything.
type fixedStateMachine struct {
	pm        chainlib.ProtocolMessage
	used      *lavasession.UsedProviders
	selection relaycore.Selection
	cv        *common.CrossValidationParams
}

func (m *fixedStateMachine) GetProtocolMessage() chainlib.ProtocolMessage { return m.pm }
func (m *fixedStateMachine) GetDebugState() bool                          { return false }
func (m *fixedStateMachine) GetRelayTaskChannel() (chan relaycore.RelayStateSendInstructions, error) {
	return make(chan relaycore.RelayStateSendInstructions), nil
}
func (m *fixedStateMachine) UpdateBatch(err error)                                     {}
func (m *fixedStateMachine) GetSelection() relaycore.Selection                         { return m.selection }
func (m *fixedStateMachine) GetCrossValidationParams() *common.CrossValidationParams   { return m.cv }
func (m *fixedStateMachine) GetUsedProviders() *lavasession.UsedProviders              { return m.used }
func (m *fixedStateMachine) SetResultsChecker(rc relaycore.ResultsCheckerInf)          {}
func (m *fixedStateMachine) SetRelayRetriesManager(*lavaprotocol.RelayRetriesManager) {}

// senderMock is the consumer side the state machine talks to (timeouts, re-parse for archive).
type senderMock struct {
	pm                chainlib.ProtocolMessage
	processingTimeout time.Duration
	relayTimeout      time.Duration
}

func (s *senderMock) GetProcessingTimeout(chainMessage chainlib.ChainMessage) (time.Duration, time.Duration) {
	return s.processingTimeout, s.relayTimeout
}
func (s *senderMock) GetChainIdAndApiInterface() (string, string) { return "ETH1", "jsonrpc" }
func (s *senderMock) ParseRelay(ctx context.Context, url, req, connectionType, dappID, consumerIp string, metadata []pairingtypes.Metadata) (chainlib.ProtocolMessage, error) {
	// archive upgrade/downgrade re-parses the same request; the retry logic under test does not
	// depend on the extension, so the same message is returned.
	return s.pm, nil
}
