package relayproc

import (
	"os"
	"runtime"
	"testing"

	"github.com/lavanet/lava/v5/utils"

	"verifharness/internal/ev"
)

func TestMain(m *testing.M) {
	// the code under test logs every relay decision; keep only fatal output
	utils.SetGlobalLoggingLevel("fatal")
	// C33 is single-threaded and C34 mostly sleeps on timers: a few Ps are enough, and 16 shards
	// with 16 Ps each only fight each other (and everything else on the box) for the scheduler
	if runtime.GOMAXPROCS(0) > 4 {
		runtime.GOMAXPROCS(4)
	}
	code := m.Run()
	ev.Flush()
	os.Exit(code)
}
