package relayproc

import (
	"os"
	"testing"

	"github.com/lavanet/lava/v5/utils"

	"verifharness/internal/ev"
)

func TestMain(m *testing.M) {
	// the code under test logs every relay decision; keep only fatal output
	utils.SetGlobalLoggingLevel("fatal")
	code := m.Run()
	ev.Flush()
	os.Exit(code)
}
