package sessions

import (
	"fmt"
	"sync"
	"testing"

	"verifharness/internal/ev"
)

// Witnesses of the known findings of C27 (HARNESS_GUIDE rule 5). Both defects are races, so a
// witness cannot be a single deterministic call sequence without scheduling hooks in the code under
// test; each witness repeats the smallest racing schedule a bounded number of times and fails with a
// violation as soon as the anomaly is observed (measured: within the first few attempts on this
// machine). If the defect is repaired the loop ends without a violation and the test passes.

// TestC27Known_duplicateSession: concurrent first use of one new session id. getSessionFromAnActiveConsumer
// misses in getExistingSession (read lock) and calls createNewSingleProviderSession, which takes the
// write lock and stores a new session without looking again; the second creator overwrites the first
// and both callers hold "the" session: two relays in flight on one session id, and the CU of the
// first is charged to the project but no longer part of any session of the map.
func TestC27Known_duplicateSession(t *testing.T) {
	cfg := worldCfg{Distance: 100, Epochs: []uint64{20}, Consumers: []string{"consumer0"}, Project: map[string]string{"consumer0": "project0"},
		MaxCU: map[string]uint64{"project0": 1000}, Sessions: 1}
	const workers = 4
	for attempt := 1; attempt <= 4000; attempt++ {
		psm := newPSM(cfg.Distance)
		if s, _, err := cfg.acquire(psm, "consumer0", 20, 99, 1); err == nil {
			_ = s.DisbandSession()
		} else {
			t.Fatalf("%s", ev.HarnessError("cannot register consumer: %v", err))
		}
		start := make(chan struct{})
		var wg sync.WaitGroup
		got := make([]bool, workers)
		ptr := make([]any, workers)
		for i := 0; i < workers; i++ {
			wg.Add(1)
			go func(i int) {
				defer wg.Done()
				<-start
				s, err := psm.GetSession(relayCtx(), "consumer0", 20, 7, 1)
				if err == nil {
					got[i] = true
					ptr[i] = s
				}
			}(i)
		}
		close(start)
		wg.Wait()
		n := 0
		for _, g := range got {
			if g {
				n++
			}
		}
		if n >= 2 {
			t.Fatalf("%s", ev.Violation("C27", "known finding %s: %d concurrent GetSession calls for the new session id 7 (relay number 1) all succeeded on attempt %d: %d relays in flight on one session id (provider_session_manager.go getSessionFromAnActiveConsumer -> provider_types.go createNewSingleProviderSession does not re-check under the write lock)", findingDupSession, n, attempt, n))
		}
	}
}

// TestC27Known_updateCuLostUpdate: UpdateSessionCU (reward server) concurrent with relays on another
// session of the same project. UpdateSessionCU reads the project's used CU, adds its delta and
// stores it back (no CAS), so an accept or rollback that lands in between is lost and used CU no
// longer equals the sum of the session CU sums.
func TestC27Known_updateCuLostUpdate(t *testing.T) {
	cfg := worldCfg{Distance: 100, Epochs: []uint64{20}, Consumers: []string{"consumer0"}, Project: map[string]string{"consumer0": "project0"},
		MaxCU: map[string]uint64{"project0": 1 << 40}, Sessions: 2}
	const iters = 3000
	for attempt := 1; attempt <= 300; attempt++ {
		psm := newPSM(cfg.Distance)
		for _, sid := range []uint64{1, 2} {
			s, _, err := cfg.acquire(psm, "consumer0", 20, sid, 1)
			if err != nil {
				t.Fatalf("%s", ev.HarnessError("cannot create session: %v", err))
			}
			_ = s.DisbandSession()
		}
		start := make(chan struct{})
		var wg sync.WaitGroup
		wg.Add(2)
		var harnessErr error
		go func() {
			defer wg.Done()
			<-start
			for i := uint64(1); i <= iters; i++ {
				_ = psm.UpdateSessionCU("consumer0", 20, 1, i)
			}
		}()
		go func() {
			defer wg.Done()
			<-start
			for i := uint64(1); i <= iters; i++ {
				s, err := psm.GetSession(relayCtx(), "consumer0", 20, 2, i)
				if err != nil {
					harnessErr = fmt.Errorf("GetSession: %w", err)
					return
				}
				if err := s.PrepareSessionForUsage(relayCtx(), 1, i, 0, 0); err != nil {
					harnessErr = fmt.Errorf("PrepareSessionForUsage: %w", err)
					_ = s.DisbandSession()
					return
				}
				_ = psm.OnSessionDone(s, i)
			}
		}()
		close(start)
		wg.Wait()
		if harnessErr != nil {
			t.Fatalf("%s", ev.HarnessError("witness relay loop: %v", harnessErr))
		}
		for _, p := range psm.VerifSnapshot() {
			var sum uint64
			for _, s := range p.Sessions {
				sum += s.CuSum
			}
			if p.UsedCU != sum {
				t.Fatalf("%s", ev.Violation("C27", "known finding %s: after %d UpdateSessionCU calls on session 1 concurrent with %d relays on session 2 of the same project (attempt %d): used CU %d != sum of session CuSum %d (provider_session_manager.go UpdateSessionCU step 3: load, add, store of the parent's used CU instead of a CAS loop)", findingUpdateCU, iters, iters, attempt, p.UsedCU, sum))
			}
		}
	}
}
