package sessions

import (
	"encoding/json"
	"fmt"
	"os"
	"runtime"
	"sort"
	"strings"
	"sync"
	"sync/atomic"
	"testing"
	"time"

	"github.com/lavanet/lava/v5/protocol/lavasession"
	"pgregory.net/rapid"

	"verifharness/internal/ev"
)

// ---- C27, concurrent mode: generated per-worker scripts run as real goroutines -----------------
//
// The binary is built with -race. Every call result goes into a ledger; oracle clauses are
// evaluated by the workers at the moment they have the needed happens-before knowledge (mutual
// exclusion counter, replay of a relay number whose completion returned before the acquire
// started, CU bound right after an accept) and at quiescence after each round (used CU == sum of
// session CuSum == CU of the relays that completed; one session object per id).
//
// Domain restrictions (all grounded in defects of the unchanged repository, see the known
// findings and the report):
//   - UpdateSessionCU holds the manager's read lock and takes it again (recursive RLock); a writer
//     arriving in between deadlocks the manager for good. That is a liveness defect outside the
//     C27 statement, so rounds that contain UpdateSessionCU ("reward rounds") have every
//     consumer/epoch registered beforehand and contain no UpdateEpoch (no writer).
//   - ev.Excluded("c27-updatecu-lost-update"): UpdateSessionCU never runs concurrently with
//     another call on the same project.
//   - ev.Excluded("c27-duplicate-session"): every session id is created before the concurrent
//     part starts (no concurrent first use of a new session id).

const (
	findingUpdateCU   = "c27-updatecu-lost-update"
	findingDupSession = "c27-duplicate-session"
)

type sOp struct {
	Kind      string `json:"k"` // relay | updatecu | epoch
	Consumer  string `json:"c,omitempty"`
	Epoch     uint64 `json:"e,omitempty"`
	Sid       uint64 `json:"s,omitempty"`
	Repeat    int    `json:"n,omitempty"`
	RelayMode int    `json:"rm,omitempty"` // 0 next number of the session, 1 replay a completed number, 2 always 1
	Cu        uint64 `json:"cu,omitempty"`
	TotalMode int    `json:"tm,omitempty"` // 0 exact, 1 pay more, 2 short
	Extra     uint64 `json:"x,omitempty"`
	Outcome   int    `json:"o,omitempty"` // 0 done, 1 failure, 2 alternate, 3 prepare-less disband
	Yield     int    `json:"y,omitempty"`
	HoldMs    int    `json:"h,omitempty"` // keep the session for this long before finishing (longer than the 30 ms lock patience)
	NewCU     uint64 `json:"ncu,omitempty"`
	NewEpoch  uint64 `json:"ne,omitempty"`
}

type sRound struct {
	Reward  bool     `json:"reward"`
	Scripts [][]sOp  `json:"scripts"`
}

type stressCase struct {
	World  worldCfg          `json:"world"`
	VE     map[string]uint64 `json:"virtual_epoch"` // per project, fixed for the case
	Rounds []sRound          `json:"rounds"`
}

type keyState struct {
	inflight int32
	next     uint64
	doneMax  uint64
	mu       sync.Mutex
	dones    []uint64 // relay numbers in completion order
	doneCU   uint64   // CU of completed relays
	ptrs     map[*lavasession.SingleProviderSession]bool
	workers  map[int]bool // workers that acquired this session successfully
	updated  bool // UpdateSessionCU addressed this session
}

type stressRun struct {
	sc        stressCase
	psm       *lavasession.ProviderSessionManager
	keys      map[skey]*keyState
	seq       int64
	logMu     sync.Mutex
	log       []string
	violMu    sync.Mutex
	viol      []string
	updProj   map[pkey]bool // projects addressed by UpdateSessionCU in this case
	latest    uint64
	accepts   map[pkey]*int64
	contended int64
	overlap   int64
	projBusy  map[pkey]*int32
}

func (r *stressRun) logf(worker int, format string, a ...any) {
	n := atomic.AddInt64(&r.seq, 1)
	s := fmt.Sprintf("%04d w%d %s", n, worker, fmt.Sprintf(format, a...))
	r.logMu.Lock()
	r.log = append(r.log, s)
	r.logMu.Unlock()
}

func (r *stressRun) violate(format string, a ...any) {
	r.violMu.Lock()
	r.viol = append(r.viol, fmt.Sprintf(format, a...))
	r.violMu.Unlock()
}

func (r *stressRun) key(k skey) *keyState { return r.keys[k] }

func genStressCase(t *rapid.T) stressCase {
	sc := stressCase{World: genWorld(t), VE: map[string]uint64{}}
	w := sc.World
	if w.Sessions < 2 {
		w.Sessions = 2
		sc.World.Sessions = 2
	}
	for _, p := range w.projects() {
		sc.VE[p] = uint64(rapid.SampledFrom([]int{0, 0, 1, 2}).Draw(t, "ve_"+p))
	}
	nRounds := rapid.IntRange(1, 3).Draw(t, "rounds")
	latest := uint64(0)
	exclUpd := ev.Excluded(findingUpdateCU)
	for ri := 0; ri < nRounds; ri++ {
		round := sRound{Reward: rapid.IntRange(0, 2).Draw(t, "rewardRound") == 0}
		nWorkers := rapid.IntRange(2, 4).Draw(t, "workers")
		blocked := uint64(0)
		if latest > w.Distance {
			blocked = latest - w.Distance
		}
		var validEpochs []uint64
		for _, e := range w.Epochs {
			if e > blocked {
				validEpochs = append(validEpochs, e)
			}
		}
		if len(validEpochs) == 0 {
			break
		}
		// most workers of a round hammer one "hot" project/epoch so that they really collide
		hotEpoch := rapid.SampledFrom(validEpochs).Draw(t, "hotEpoch")
		hotConsumer := rapid.SampledFrom(w.Consumers).Draw(t, "hotConsumer")
		// when the lost-update finding is excluded, one worker of a reward round owns a project
		// for its UpdateSessionCU calls and nobody else touches that project in the round
		rewardWorker, rewardProject := -1, ""
		if round.Reward {
			rewardWorker = rapid.IntRange(0, nWorkers-1).Draw(t, "rewardWorker")
			if exclUpd {
				if len(w.MaxCU) < 2 {
					round.Reward = false
					rewardWorker = -1
				} else {
					rewardProject = rapid.SampledFrom(w.projects()).Draw(t, "rewardProject")
				}
			}
		}
		epochWorker := -1
		if !round.Reward && rapid.IntRange(0, 2).Draw(t, "epochInRound") == 0 {
			epochWorker = rapid.IntRange(0, nWorkers-1).Draw(t, "epochWorker")
		}
		for wi := 0; wi < nWorkers; wi++ {
			nOps := rapid.IntRange(2, 6).Draw(t, "ops")
			var script []sOp
			for oi := 0; oi < nOps; oi++ {
				consumer := hotConsumer
				epoch := hotEpoch
				if rapid.IntRange(0, 4).Draw(t, "cold") == 0 {
					consumer = rapid.SampledFrom(w.Consumers).Draw(t, "consumer")
					epoch = rapid.SampledFrom(w.Epochs).Draw(t, "epoch")
				}
				if exclUpd && rewardProject != "" {
					// the reward worker stays on the reward project, everybody else stays away from it
					var cand []string
					for _, c := range w.Consumers {
						if (w.Project[c] == rewardProject) == (wi == rewardWorker) {
							cand = append(cand, c)
						}
					}
					consumer = rapid.SampledFrom(cand).Draw(t, "consumerSplit")
				}
				sid := uint64(rapid.IntRange(1, w.Sessions).Draw(t, "sid"))
				kind := rapid.IntRange(0, 9).Draw(t, "kind")
				switch {
				case wi == rewardWorker && kind < 5:
					script = append(script, sOp{Kind: "updatecu", Consumer: consumer, Epoch: epoch, Sid: sid,
						Repeat: rapid.SampledFrom([]int{1, 1, 20, 100}).Draw(t, "repeat"),
						NewCU:  uint64(rapid.IntRange(1, int(w.MaxCU[w.Project[consumer]])).Draw(t, "newCU"))})
				case wi == epochWorker && kind < 3:
					var cand []uint64
					for _, e := range []uint64{20, 30, 40, 50} {
						if e >= latest {
							cand = append(cand, e)
						}
					}
					e := rapid.SampledFrom(cand).Draw(t, "newEpoch")
					latest = e
					script = append(script, sOp{Kind: "epoch", NewEpoch: e})
				default:
					max := w.MaxCU[w.Project[consumer]]
					op := sOp{Kind: "relay", Consumer: consumer, Epoch: epoch, Sid: sid,
						Repeat:    rapid.SampledFrom([]int{1, 1, 1, 3, 30, 200}).Draw(t, "repeat"),
						RelayMode: rapid.SampledFrom([]int{0, 0, 0, 0, 0, 0, 1, 2}).Draw(t, "relayMode"),
						Cu:        uint64(rapid.IntRange(1, int(max/8)+1).Draw(t, "cu")),
						TotalMode: rapid.SampledFrom([]int{0, 0, 0, 0, 1, 2}).Draw(t, "totalMode"),
						Extra:     uint64(rapid.IntRange(1, 3).Draw(t, "extra")),
						Outcome:   rapid.SampledFrom([]int{0, 0, 1, 2, 2, 2, 3}).Draw(t, "outcome"),
						Yield:     rapid.SampledFrom([]int{0, 0, 1, 3, 20}).Draw(t, "yield"),
					}
					if op.Repeat == 1 && rapid.IntRange(0, 7).Draw(t, "hold") == 0 {
						op.HoldMs = 35
					}
					script = append(script, op)
				}
			}
			round.Scripts = append(round.Scripts, script)
		}
		sc.Rounds = append(sc.Rounds, round)
	}
	return sc
}

func (r *stressRun) ks(consumer string, epoch, sid uint64) (skey, *keyState) {
	k := skey{epoch, r.sc.World.Project[consumer], sid}
	return k, r.keys[k]
}

func (r *stressRun) doRelay(wi int, op sOp, iter int) {
	w := r.sc.World
	k, st := r.ks(op.Consumer, op.Epoch, op.Sid)
	pk := pkey{k.Epoch, k.Project}
	var relayNum uint64
	switch op.RelayMode {
	case 1:
		relayNum = atomic.LoadUint64(&st.doneMax)
	case 2:
		relayNum = 1
	default:
		relayNum = atomic.AddUint64(&st.next, 1)
	}
	doneBefore := atomic.LoadUint64(&st.doneMax)
	sess, registered, err := w.acquire(r.psm, op.Consumer, op.Epoch, op.Sid, relayNum)
	if err != nil {
		cls := errClass(err)
		if cls == "locked" {
			atomic.AddInt64(&r.contended, 1)
		}
		r.logf(wi, "acquire %s %s relayNum=%d -> %s", op.Consumer, k, relayNum, cls)
		return
	}
	n := atomic.AddInt32(&st.inflight, 1)
	r.logf(wi, "acquire %s %s relayNum=%d -> ok (registered=%v, in flight now %d)", op.Consumer, k, relayNum, registered, n)
	if n > 1 {
		r.violate("session %s: %d relays between a successful acquire and their Done/Failure at the same time (worker %d, relayNum %d)", k, n, wi, relayNum)
	}
	if doneBefore != 0 && relayNum <= doneBefore {
		r.violate("session %s accepted relay number %d although relay number %d had already completed before the request started (worker %d)", k, relayNum, doneBefore, wi)
	}
	st.mu.Lock()
	isNew := !st.ptrs[sess]
	st.workers[wi] = true
	st.ptrs[sess] = true
	nptr := len(st.ptrs)
	st.mu.Unlock()
	if nptr > 1 && isNew {
		r.violate("session %s: the manager handed out %d different session objects for one session id", k, nptr)
	}
	release := func(f func() error, what string) {
		atomic.AddInt32(&st.inflight, -1)
		if err := f(); err != nil {
			r.violate("session %s: %s of worker %d found the session lock free or the session in use: %v", k, what, wi, err)
		}
	}
	disband := func() error {
		if !sess.VerifIsLocked() {
			return fmt.Errorf("lock is free")
		}
		_ = sess.DisbandSession()
		return nil
	}
	if op.Outcome == 3 {
		release(disband, "DisbandSession")
		r.logf(wi, "disband %s", k)
		return
	}
	if b := r.projBusy[pk]; b != nil {
		if atomic.AddInt32(b, 1) > 1 {
			atomic.AddInt64(&r.overlap, 1)
		}
		defer atomic.AddInt32(b, -1)
	}
	c0 := cuRead(&sess.CuSum)
	total := c0 + op.Cu
	switch op.TotalMode {
	case 1:
		total += op.Extra
	case 2:
		if op.Cu > 1 {
			total--
		}
	}
	ve := r.sc.VE[k.Project]
	err = sess.PrepareSessionForUsage(relayCtx(), op.Cu, total, w.Threshold, ve)
	if err != nil {
		r.logf(wi, "prepare %s cu=%d total=%d -> %s", k, op.Cu, total, errClass(err))
		release(disband, "DisbandSession")
		return
	}
	c1 := cuRead(&sess.CuSum)
	delta := c1 - c0
	used := sess.VerifParent().VerifUsedCU()
	r.logf(wi, "prepare %s cu=%d total=%d -> ok (cuSum %d -> %d, used now %d)", k, op.Cu, total, c0, c1, used)
	if a := r.accepts[pk]; a != nil {
		atomic.AddInt64(a, 1)
	}
	if !r.updProj[pk] {
		if bound := w.MaxCU[k.Project] * (ve + 1); used > bound {
			r.violate("relay accepted on %s (worker %d): used CU of %s is %d > maxCU %d * (virtualEpoch %d + 1)", k, wi, pk, used, w.MaxCU[k.Project], ve)
		}
	}
	for i := 0; i < op.Yield; i++ {
		runtime.Gosched()
	}
	if op.HoldMs > 0 {
		time.Sleep(time.Duration(op.HoldMs) * time.Millisecond)
	}
	fail := op.Outcome == 1 || (op.Outcome == 2 && iter%2 == 1)
	if fail {
		release(func() error { return r.psm.OnSessionFailure(sess, relayNum) }, "OnSessionFailure")
		r.logf(wi, "failure %s relayNum=%d (gives back %d)", k, relayNum, delta)
		return
	}
	st.mu.Lock()
	st.dones = append(st.dones, relayNum)
	st.doneCU += delta
	st.mu.Unlock()
	release(func() error { return r.psm.OnSessionDone(sess, relayNum) }, "OnSessionDone")
	for {
		cur := atomic.LoadUint64(&st.doneMax)
		if relayNum <= cur || atomic.CompareAndSwapUint64(&st.doneMax, cur, relayNum) {
			break
		}
	}
	r.logf(wi, "done %s relayNum=%d (+%d CU)", k, relayNum, delta)
}

func (r *stressRun) runWorker(wi int, script []sOp) {
	for _, op := range script {
		rep := op.Repeat
		if rep < 1 {
			rep = 1
		}
		for i := 0; i < rep; i++ {
			switch op.Kind {
			case "relay":
				r.doRelay(wi, op, i)
			case "updatecu":
				k, _ := r.ks(op.Consumer, op.Epoch, op.Sid)
				err := r.psm.UpdateSessionCU(op.Consumer, op.Epoch, op.Sid, op.NewCU+uint64(i))
				r.logf(wi, "updateSessionCU %s newCU=%d -> %s", k, op.NewCU+uint64(i), errClass(err))
			case "epoch":
				r.psm.UpdateEpoch(op.NewEpoch)
				r.logf(wi, "updateEpoch %d", op.NewEpoch)
			}
		}
	}
}

func (r *stressRun) blocked() uint64 {
	if r.latest > r.sc.World.Distance {
		return r.latest - r.sc.World.Distance
	}
	return 0
}

// prologue of a round, sequential: registrations (reward rounds, so that no writer meets the
// recursive read lock of UpdateSessionCU) and session creation (duplicate-session finding excluded).
func (r *stressRun) prologue(round sRound) {
	w := r.sc.World
	type ce struct {
		c string
		e uint64
	}
	seen := map[ce]bool{}
	seenKey := map[skey]bool{}
	exclDup := ev.Excluded(findingDupSession)
	// the excluded class is "concurrent first use of ONE new session id": only ids that two or more
	// workers of the round address are created beforehand; ids addressed by a single worker are
	// still created concurrently with the other workers' calls.
	users := map[skey]map[int]bool{}
	for wi, script := range round.Scripts {
		for _, op := range script {
			if op.Kind != "epoch" {
				k, _ := r.ks(op.Consumer, op.Epoch, op.Sid)
				if users[k] == nil {
					users[k] = map[int]bool{}
				}
				users[k][wi] = true
			}
		}
	}
	for _, script := range round.Scripts {
		for _, op := range script {
			if op.Kind == "epoch" || op.Epoch <= r.blocked() {
				continue
			}
			if round.Reward && !seen[ce{op.Consumer, op.Epoch}] {
				seen[ce{op.Consumer, op.Epoch}] = true
				sess, _, err := w.acquire(r.psm, op.Consumer, op.Epoch, 99, 1)
				if err == nil {
					_ = sess.DisbandSession()
				}
			}
			k, _ := r.ks(op.Consumer, op.Epoch, op.Sid)
			if exclDup && !seenKey[k] && len(users[k]) > 1 {
				seenKey[k] = true
				sess, _, err := w.acquire(r.psm, op.Consumer, op.Epoch, op.Sid, ^uint64(0)>>1)
				if err == nil {
					_ = sess.DisbandSession()
				}
			}
		}
	}
}

func (r *stressRun) quiescence(c *ev.Collector) {
	snap := r.psm.VerifSnapshot()
	blocked := r.blocked()
	for _, p := range snap {
		if p.Epoch <= blocked {
			continue
		}
		pk := pkey{p.Epoch, p.ProjectID}
		var sum, doneSum uint64
		ledgerOK := !r.updProj[pk]
		for _, s := range p.Sessions {
			sum += s.CuSum
			if s.SessionID == 99 {
				continue
			}
			st := r.keys[skey{p.Epoch, p.ProjectID, s.SessionID}]
			if st == nil {
				continue
			}
			st.mu.Lock()
			doneSum += st.doneCU
			dones := append([]uint64{}, st.dones...)
			doneCU := st.doneCU
			st.mu.Unlock()
			c.Clause("stress: completed relay numbers strictly increase per session")
			for i := 1; i < len(dones); i++ {
				if dones[i] <= dones[i-1] {
					r.violate("session %d/%s/s%d completed relay number %d after relay number %d", p.Epoch, p.ProjectID, s.SessionID, dones[i], dones[i-1])
					break
				}
			}
			if ledgerOK {
				c.Clause("stress: session CuSum == CU of its completed relays (failed relays rolled back in full)")
				if s.CuSum != doneCU {
					r.violate("session %d/%s/s%d: CuSum %d at quiescence but its completed relays were accepted with %d CU in total", p.Epoch, p.ProjectID, s.SessionID, s.CuSum, doneCU)
				}
			}
		}
		c.Clause("stress: used CU == sum of session CuSum at quiescence")
		if p.UsedCU != sum {
			r.violate("%s: used CU %d != sum of session CuSum %d at quiescence (%+v)", pk, p.UsedCU, sum, p.Sessions)
		}
		if ledgerOK {
			c.Clause("stress: used CU == CU of completed relays <= maxCU*(virtualEpoch+1)")
			if p.UsedCU != doneSum {
				r.violate("%s: used CU %d at quiescence but the completed relays were accepted with %d CU in total", pk, p.UsedCU, doneSum)
			}
			if bound := r.sc.World.MaxCU[p.ProjectID] * (r.sc.VE[p.ProjectID] + 1); doneSum > bound {
				r.violate("%s: completed relays were accepted with %d CU > maxCU %d * (virtualEpoch %d + 1)", pk, doneSum, r.sc.World.MaxCU[p.ProjectID], r.sc.VE[p.ProjectID])
			}
		}
	}
	// every session the workers were served on must be the manager's session of that id
	keys := make([]skey, 0, len(r.keys))
	for k := range r.keys {
		keys = append(keys, k)
	}
	sort.Slice(keys, func(i, j int) bool { return keys[i].String() < keys[j].String() })
	for _, k := range keys {
		st := r.keys[k]
		if k.Epoch <= blocked || len(st.ptrs) == 0 {
			continue
		}
		c.Clause("stress: one session object per session id")
		if len(st.ptrs) > 1 {
			r.violate("session %s: %d different session objects were handed out", k, len(st.ptrs))
		}
	}
}

// runStress executes a case; returns the violations found.
func runStress(sc stressCase, c *ev.Collector) (viol []string, run *stressRun) {
	w := sc.World
	r := &stressRun{sc: sc, psm: newPSM(w.Distance), keys: map[skey]*keyState{}, updProj: map[pkey]bool{},
		accepts: map[pkey]*int64{}, projBusy: map[pkey]*int32{}}
	for _, e := range w.Epochs {
		for _, p := range w.projects() {
			r.accepts[pkey{e, p}] = new(int64)
			r.projBusy[pkey{e, p}] = new(int32)
			for sid := 1; sid <= w.Sessions; sid++ {
				r.keys[skey{e, p, uint64(sid)}] = &keyState{ptrs: map[*lavasession.SingleProviderSession]bool{}, workers: map[int]bool{}}
			}
		}
	}
	for _, round := range sc.Rounds {
		for _, script := range round.Scripts {
			for _, op := range script {
				if op.Kind == "updatecu" {
					k, st := r.ks(op.Consumer, op.Epoch, op.Sid)
					st.updated = true
					r.updProj[pkey{k.Epoch, k.Project}] = true
				}
			}
		}
	}
	for ri, round := range sc.Rounds {
		r.prologue(round)
		start := make(chan struct{})
		var wg sync.WaitGroup
		for wi, script := range round.Scripts {
			wg.Add(1)
			go func(wi int, script []sOp) {
				defer wg.Done()
				<-start
				r.runWorker(wi, script)
			}(wi, script)
		}
		done := make(chan struct{})
		go func() { wg.Wait(); close(done) }()
		close(start)
		select {
		case <-done:
		case <-time.After(120 * time.Second):
			b, _ := json.Marshal(sc)
			fmt.Println(ev.HarnessError("C27 stress: round %d did not finish within 120 s (deadlock or starvation; liveness is outside the property). case=%s", ri, b))
			buf := make([]byte, 1<<20)
			fmt.Printf("%s\n", buf[:runtime.Stack(buf, true)])
			ev.Flush()
			os.Exit(2)
		}
		for _, script := range round.Scripts {
			for _, op := range script {
				if op.Kind == "epoch" && op.NewEpoch > r.latest {
					r.latest = op.NewEpoch
				}
			}
		}
		r.logf(-1, "---- end of round %d (quiescence) ----", ri)
		r.quiescence(c)
		if len(r.viol) > 0 {
			break
		}
	}
	return r.viol, r
}

func (r *stressRun) report(viol []string) string {
	b, _ := json.MarshalIndent(r.sc, "", " ")
	logTail := r.log
	if len(logTail) > 400 {
		logTail = append([]string{fmt.Sprintf("... (%d earlier entries dropped)", len(logTail)-400)}, logTail[len(logTail)-400:]...)
	}
	if len(viol) > 5 {
		viol = append(viol[:5:5], fmt.Sprintf("... and %d more", len(viol)-5))
	}
	return fmt.Sprintf("%s\nschedule-dependent: the violation may not reproduce on replay; scripts and observed call log follow.\ncase=%s\nobserved log (ordered by a global sequence number taken when each call returned):\n  %s",
		strings.Join(viol, "\n"), b, strings.Join(logTail, "\n  "))
}

func propC27Stress(t *rapid.T) {
	c := ev.For("C27")
	declareC27(c)
	sc := genStressCase(t)
	if len(sc.Rounds) == 0 {
		t.Skip("no round")
	}
	if ev.Excluded(findingUpdateCU) {
		c.Exclude(findingUpdateCU)
	}
	if ev.Excluded(findingDupSession) {
		c.Exclude(findingDupSession)
	}
	viol, r := runStress(sc, c)
	// evidence
	cls := []string{"stress", fmt.Sprintf("stress-rounds-%d", len(sc.Rounds))}
	sharedAccepts := false
	for _, a := range r.accepts {
		if atomic.LoadInt64(a) >= 2 {
			sharedAccepts = true
		}
	}
	if r.contended > 0 {
		cls = append(cls, "stress-session-lock-wait-exceeded")
	}
	sameKey := false
	for _, st := range r.keys {
		if len(st.workers) >= 2 {
			sameKey = true
		}
	}
	if sameKey {
		cls = append(cls, "stress-one-session-several-workers")
	}
	if r.overlap > 0 {
		cls = append(cls, "stress-overlapping-relays-one-project")
	}
	for _, rd := range sc.Rounds {
		if rd.Reward {
			cls = append(cls, "stress-reward-round")
			break
		}
	}
	for _, rd := range sc.Rounds {
		for _, s := range rd.Scripts {
			for _, op := range s {
				if op.Kind == "epoch" {
					cls = append(cls, "stress-epoch-update-concurrent")
					goto out
				}
			}
		}
	}
out:
	nontrivial := sharedAccepts && (r.overlap > 0 || r.contended > 0 || sameKey)
	fp, _ := json.Marshal(sc)
	c.Case(nontrivial, "stress:"+string(fp), cls...)
	if nontrivial {
		c.Sample(map[string]any{"mode": "stress", "case": sc, "calls": len(r.log)})
	}
	if len(viol) > 0 {
		t.Fatalf("%s", ev.Violation("C27", "%s", r.report(viol)))
	}
}

// TestC27Stress runs the concurrent mode alone (the driver uses TestC27, which mixes both modes).
func TestC27Stress(t *testing.T) {
	rapid.Check(t, propC27Stress)
}

func declareStress(c *ev.Collector) {
	c.Assume(
		"stress mode: the virtual epoch of a project is constant during a case; a single goroutine delivers epoch updates, in increasing order",
		"stress mode: rounds that contain UpdateSessionCU have all consumers registered beforehand and contain no UpdateEpoch, because UpdateSessionCU takes the manager's read lock recursively and deadlocks against any writer (liveness defect outside the property, reported separately)",
		"stress mode explores the schedules the Go scheduler produces on this machine; it does not enumerate interleavings",
	)
}
