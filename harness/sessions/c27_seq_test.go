package sessions

import (
	"fmt"
	"sort"
	"strings"
	"sync"
	"testing"
	"time"

	"github.com/lavanet/lava/v5/protocol/lavasession"
	"pgregory.net/rapid"

	"verifharness/internal/ev"
)

// ---- C27, deterministic mode: generated histories against a reference ledger -------------------
//
// Several relays can be "in flight" at once (acquired, maybe prepared, not finished yet), so the
// sequential history already contains the interleavings at API-call granularity: relay B acquires,
// prepares, fails or completes while relay A holds its session; epochs change and the reward
// server raises a session's CU while relays are in flight.

type flight struct {
	id       int
	consumer string
	key      skey
	relayNum uint64
	sess     *lavasession.SingleProviderSession
	prepared bool
	fuzzy    bool // prepared while an UpdateSessionCU on its project had not returned: amounts not checkable
	prepFail bool
	delta    uint64 // CU accepted for this relay (observed growth of the session's CuSum)
	ve       uint64
}

type sessLedger struct {
	holder  *flight
	hasDone bool
	last    uint64 // last relay number that completed (OnSessionDone)
	ptr     *lavasession.SingleProviderSession
}

// pendingUpdate: UpdateSessionCU addressed a session with a relay in flight and did not return
// within 100 ms. (On a loaded machine a call that does not wait at all can also take that long; therefore, from this moment until the call has returned, every exact-value clause on the project is skipped, and the ledger is re-read from the sessions when it has). The unchanged code never waits there; an implementation that serialises the update
// with the relay (session lock) does, and then the update completes when the relay is released.
type pendingUpdate struct {
	key  skey
	done chan error
}

type seqWorld struct {
	cfg      worldCfg
	psm      *lavasession.ProviderSessionManager
	flights  []*flight
	nextID   int
	sess     map[skey]*sessLedger
	accepted map[pkey]uint64 // ledger: CU accepted and not rolled back, per epoch/project
	latest   uint64          // latest epoch given to UpdateEpoch
	blocked  uint64          // epochs <= blocked are no longer valid
	log      []string
	lockedTries, lockedBudget int
	pending *pendingUpdate // an UpdateSessionCU that waits for the relay in flight on its session
	// evidence
	nAccept, nRollback, nLimitRej, nReplayRej, nLockedRej, nExpiredFail, nUpdRaise, nInflightOverlap int
	classes map[string]bool
}

func (w *seqWorld) valid(epoch uint64) bool { return epoch > w.blocked }

func (w *seqWorld) logf(format string, a ...any) {
	w.log = append(w.log, fmt.Sprintf(format, a...))
}

func (w *seqWorld) history() string {
	return fmt.Sprintf("world=%+v\nhistory:\n  %s", w.cfg, strings.Join(w.log, "\n  "))
}

func (w *seqWorld) violate(t *rapid.T, format string, a ...any) {
	t.Fatalf("%s", ev.Violation("C27", "%s\n%s", fmt.Sprintf(format, a...), w.history()))
}

func (w *seqWorld) ledger(k skey) *sessLedger {
	l, ok := w.sess[k]
	if !ok {
		l = &sessLedger{}
		w.sess[k] = l
	}
	return l
}

func (w *seqWorld) drawKey(t *rapid.T) (string, skey) {
	consumer := rapid.SampledFrom(w.cfg.Consumers).Draw(t, "consumer")
	// prefer epochs that are still valid
	var cand []uint64
	for _, e := range w.cfg.Epochs {
		if w.valid(e) {
			cand = append(cand, e)
		}
	}
	if len(cand) == 0 || rapid.IntRange(0, 9).Draw(t, "staleEpoch") == 0 {
		cand = w.cfg.Epochs
	}
	epoch := rapid.SampledFrom(cand).Draw(t, "epoch")
	sid := uint64(rapid.IntRange(1, w.cfg.Sessions).Draw(t, "sid"))
	return consumer, skey{epoch, w.cfg.Project[consumer], sid}
}

func (w *seqWorld) opAcquire(t *rapid.T) {
	c := ev.For("C27")
	if len(w.flights) >= 3 {
		t.Skip("enough relays in flight")
	}
	consumer, k := w.drawKey(t)
	l := w.ledger(k)
	held := l.holder != nil && w.valid(k.Epoch)
	if held {
		if w.lockedTries >= w.lockedBudget {
			t.Skip("locked re-acquire budget used (each costs 30 ms)")
		}
		w.lockedTries++
	}
	var relayNum uint64
	switch rapid.IntRange(0, 9).Draw(t, "relayNumMode") {
	case 0:
		relayNum = l.last // replay of the last completed relay number (0 on a fresh session)
	case 1:
		if l.last > 0 {
			relayNum = uint64(rapid.IntRange(0, int(l.last)).Draw(t, "oldRelayNum"))
		} else {
			relayNum = 1
		}
	case 2:
		relayNum = l.last + uint64(rapid.IntRange(2, 5).Draw(t, "relayNumJump"))
	default:
		relayNum = l.last + 1
	}
	sess, registered, err := w.cfg.acquire(w.psm, consumer, k.Epoch, k.Sid, relayNum)
	w.logf("acquire %s %s relayNum=%d -> %s (registered=%v)", consumer, k, relayNum, errClass(err), registered)
	if held {
		c.Clause("exclusive: a session with a relay in flight cannot be acquired again")
		if err == nil {
			w.violate(t, "session %s was handed out while relay #%d (relayNum %d) is still in flight on it", k, l.holder.id, l.holder.relayNum)
		}
		w.nLockedRej++
		w.classes["reject-locked"] = true
		return
	}
	if l.hasDone && relayNum <= l.last && w.valid(k.Epoch) {
		c.Clause("relay numbers: a relay number <= the last completed one is rejected")
		if err == nil {
			w.violate(t, "session %s accepted relay number %d although relay number %d already completed", k, relayNum, l.last)
		}
		w.nReplayRej++
		w.classes["reject-replay"] = true
		return
	}
	if err != nil {
		w.classes["acquire-"+errClass(err)] = true
		return
	}
	c.Clause("identity: the returned session is the one asked for")
	if sess.SessionID != k.Sid || sess.PairingEpoch != k.Epoch {
		w.violate(t, "asked for session %s, got session id %d of epoch %d", k, sess.SessionID, sess.PairingEpoch)
	}
	if parent := sess.VerifParent(); parent == nil || parent.VerifProjectID() != k.Project {
		w.violate(t, "session %s charges a different project", k)
	}
	if l.holder != nil {
		// only reachable for an epoch that is no longer valid by the ledger but was handed out anyway
		w.classes["acquire-on-expired-epoch"] = true
		_ = sess.DisbandSession()
		return
	}
	f := &flight{id: w.nextID, consumer: consumer, key: k, relayNum: relayNum, sess: sess}
	w.nextID++
	l.holder = f
	l.ptr = sess
	if len(w.flights) > 0 {
		w.nInflightOverlap++
		w.classes["overlapping-relays"] = true
	}
	w.flights = append(w.flights, f)
	if registered {
		w.classes["registered"] = true
	}
}

func (w *seqWorld) pickFlight(t *rapid.T, pred func(*flight) bool) *flight {
	var cand []*flight
	for _, f := range w.flights {
		if pred(f) {
			cand = append(cand, f)
		}
	}
	if len(cand) == 0 {
		t.Skip("no suitable relay in flight")
	}
	return cand[rapid.IntRange(0, len(cand)-1).Draw(t, "flight")]
}

func (w *seqWorld) opPrepare(t *rapid.T) {
	c := ev.For("C27")
	f := w.pickFlight(t, func(f *flight) bool { return !f.prepared && !f.prepFail })
	max := w.cfg.MaxCU[f.key.Project]
	parent := f.sess.VerifParent()
	cuSum := cuRead(&f.sess.CuSum)
	used := parent.VerifUsedCU()
	cu := uint64(rapid.IntRange(1, int(max/2)+1).Draw(t, "cu"))
	ve := uint64(rapid.SampledFrom([]int{0, 0, 0, 0, 1, 1, 2}).Draw(t, "virtualEpoch"))
	var total uint64
	mode := rapid.IntRange(0, 11).Draw(t, "totalMode")
	switch {
	case mode == 0: // consumer pays more than the spec asks for
		total = cuSum + cu + uint64(rapid.IntRange(1, int(max)).Draw(t, "extra"))
		w.classes["pay-more"] = true
	case mode == 1 && cu > 1: // consumer's total is short by a few CU (missing-CU case 1)
		total = cuSum + cu - uint64(rapid.IntRange(1, int(cu)-1).Draw(t, "short"))
		w.classes["missing-cu-partial"] = true
	case mode == 2: // consumer's total is not above what the provider already has (case 2)
		total = cuSum - uint64(rapid.IntRange(0, int(cuSum)).Draw(t, "below"))
		w.classes["missing-cu-all"] = true
	case mode == 3: // jump right to / over the limit
		room := int64(max*(ve+1)) - int64(used)
		total = cuSum + uint64(maxI64(0, room+int64(rapid.IntRange(-1, 2).Draw(t, "aroundLimit"))))
		if total < cuSum+cu {
			cu = 1
		}
		w.classes["around-limit"] = true
	default:
		total = cuSum + cu
	}
	if w.inFlux(pkey{f.key.Epoch, f.key.Project}) {
		f.fuzzy = true
	}
	err := f.sess.PrepareSessionForUsage(relayCtx(), cu, total, w.cfg.Threshold, ve)
	cuAfter := cuRead(&f.sess.CuSum)
	usedAfter := parent.VerifUsedCU()
	w.logf("prepare #%d %s cu=%d total=%d ve=%d (before: cuSum=%d used=%d max=%d) -> %s (after: cuSum=%d used=%d)", f.id, f.key, cu, total, ve, cuSum, used, max, errClass(err), cuAfter, usedAfter)
	if err != nil {
		f.prepFail = true
		switch errClass(err) {
		case "max-cu":
			w.nLimitRej++
			w.classes["reject-limit"] = true
		case "cu-mismatch":
			w.classes["reject-cu-mismatch"] = true
		default:
			w.classes["reject-prepare-other"] = true
		}
		return
	}
	f.prepared = true
	f.ve = ve
	if cuAfter >= cuSum {
		f.delta = cuAfter - cuSum
	}
	pk := pkey{f.key.Epoch, f.key.Project}
	w.accepted[pk] += f.delta
	w.nAccept++
	if ve > 0 {
		w.classes["virtual-epoch"] = true
	}
	w.pollPending()
	if w.valid(f.key.Epoch) && !w.inFlux(pk) {
		c.Clause("limit: accepted CU of the project in the epoch <= maxCU*(virtualEpoch+1) at acceptance")
		bound := max * (ve + 1)
		if usedAfter > bound {
			w.violate(t, "relay #%d accepted: used CU of %s is %d > maxCU %d * (virtualEpoch %d + 1)", f.id, pk, usedAfter, max, ve)
		}
		if w.accepted[pk] > bound {
			w.violate(t, "relay #%d accepted: the ledger counts %d CU accepted (not rolled back) for %s > maxCU %d * (virtualEpoch %d + 1)", f.id, w.accepted[pk], pk, max, ve)
		}
		if sum := w.sumCu(pk); sum > bound {
			w.violate(t, "relay #%d accepted: session CU sums of %s add up to %d > maxCU %d * (virtualEpoch %d + 1)", f.id, pk, sum, max, ve)
		}
	}
}

func maxI64(a, b int64) int64 {
	if a > b {
		return a
	}
	return b
}

// sumCu adds up the CuSum of the sessions the ledger knows for the project (by pointer, so it
// also sees sessions that a defective manager dropped from its map).
func (w *seqWorld) sumCu(pk pkey) uint64 {
	var sum uint64
	for k, l := range w.sess {
		if k.Epoch == pk.Epoch && k.Project == pk.Project && l.ptr != nil {
			sum += cuRead(&l.ptr.CuSum)
		}
	}
	return sum
}

// joinPending waits for the blocked UpdateSessionCU after its session was released and brings the
// ledger back in step with the sessions (the update ran concurrently with the release, so the
// exact-value clauses of that release are skipped by the caller).
func (w *seqWorld) joinPending(t *rapid.T) {
	p := w.pending
	select {
	case <-p.done:
	case <-time.After(120 * time.Second):
		t.Fatalf("%s", ev.HarnessError("UpdateSessionCU on %s still blocked 120 s after the relay on its session was released\n%s", p.key, w.history()))
	}
	w.pending = nil
	pk := pkey{p.key.Epoch, p.key.Project}
	w.accepted[pk] = w.sumCu(pk)
	w.logf("updateSessionCU on %s completed after the relay was released (ledger re-read: %d)", p.key, w.accepted[pk])
}

// pollPending: has the waiting UpdateSessionCU returned meanwhile? (It always will on an
// implementation that does not wait for the relay at all and was merely slow to be scheduled.)
func (w *seqWorld) pollPending() {
	if w.pending == nil {
		return
	}
	select {
	case <-w.pending.done:
		p := w.pending
		w.pending = nil
		pk := pkey{p.key.Epoch, p.key.Project}
		w.accepted[pk] = w.sumCu(pk)
		w.logf("updateSessionCU on %s has returned (ledger re-read: %d)", p.key, w.accepted[pk])
	default:
	}
}

// inFlux: the accounting of this project may change at any moment because an UpdateSessionCU call
// has not returned yet; exact-value clauses on it are skipped until it has.
func (w *seqWorld) inFlux(pk pkey) bool {
	return w.pending != nil && w.pending.key.Epoch == pk.Epoch && w.pending.key.Project == pk.Project
}

func (w *seqWorld) hasPending(f *flight) bool { return w.pending != nil && w.pending.key == f.key }

func (w *seqWorld) removeFlight(f *flight) {
	for i, g := range w.flights {
		if g == f {
			w.flights = append(w.flights[:i], w.flights[i+1:]...)
			break
		}
	}
	if l := w.ledger(f.key); l.holder == f {
		l.holder = nil
	}
}

func (w *seqWorld) opDone(t *rapid.T) {
	c := ev.For("C27")
	f := w.pickFlight(t, func(f *flight) bool { return f.prepared })
	pend := w.hasPending(f)
	err := w.psm.OnSessionDone(f.sess, f.relayNum)
	if pend {
		w.joinPending(t)
	}
	w.logf("done #%d %s relayNum=%d -> %v", f.id, f.key, f.relayNum, err == nil)
	c.Clause("held => locked: finishing a relay finds its session lock held")
	if err != nil {
		w.violate(t, "OnSessionDone of relay #%d found the session lock free: the session was not exclusively held (%v)", f.id, err)
	}
	l := w.ledger(f.key)
	if w.valid(f.key.Epoch) {
		c.Clause("relay numbers: completed relay numbers strictly increase")
		if l.hasDone && f.relayNum <= l.last {
			w.violate(t, "session %s completed relay number %d after relay number %d", f.key, f.relayNum, l.last)
		}
	}
	l.hasDone = true
	if f.relayNum > l.last {
		l.last = f.relayNum
	}
	w.removeFlight(f)
}

func (w *seqWorld) opFail(t *rapid.T) {
	c := ev.For("C27")
	f := w.pickFlight(t, func(f *flight) bool { return f.prepared })
	parent := f.sess.VerifParent()
	cuBefore := cuRead(&f.sess.CuSum)
	usedBefore := parent.VerifUsedCU()
	validNow := w.valid(f.key.Epoch)
	pend := w.hasPending(f)
	err := w.psm.OnSessionFailure(f.sess, f.relayNum)
	if pend {
		w.joinPending(t)
		w.logf("failure #%d %s (rollback amounts not checked: a blocked UpdateSessionCU ran concurrently)", f.id, f.key)
		if err != nil {
			w.violate(t, "OnSessionFailure of relay #%d found the session lock free (%v)", f.id, err)
		}
		w.removeFlight(f)
		return
	}
	cuAfter := cuRead(&f.sess.CuSum)
	usedAfter := parent.VerifUsedCU()
	w.logf("failure #%d %s delta=%d epochValid=%v (before: cuSum=%d used=%d; after: cuSum=%d used=%d) -> %v", f.id, f.key, f.delta, validNow, cuBefore, usedBefore, cuAfter, usedAfter, err == nil)
	c.Clause("held => locked: finishing a relay finds its session lock held")
	if err != nil {
		w.violate(t, "OnSessionFailure of relay #%d found the session lock free: the session was not exclusively held (%v)", f.id, err)
	}
	pk := pkey{f.key.Epoch, f.key.Project}
	if validNow && (w.inFlux(pk) || f.fuzzy) {
		if !w.inFlux(pk) {
			w.accepted[pk] = w.sumCu(pk)
		}
		w.removeFlight(f)
		return
	}
	if validNow {
		c.Clause("rollback: a relay failing in a valid epoch gives back exactly the CU it was accepted with")
		if cuAfter != cuBefore-f.delta {
			w.violate(t, "relay #%d failed in valid epoch %d: session CuSum %d -> %d, expected %d (accepted with %d CU)", f.id, f.key.Epoch, cuBefore, cuAfter, cuBefore-f.delta, f.delta)
		}
		if usedAfter != usedBefore-f.delta {
			w.violate(t, "relay #%d failed in valid epoch %d: used CU of %s %d -> %d, expected %d (accepted with %d CU)", f.id, f.key.Epoch, pk, usedBefore, usedAfter, usedBefore-f.delta, f.delta)
		}
		w.accepted[pk] -= f.delta
		w.nRollback++
		if f.delta > 0 {
			w.classes["rollback"] = true
		}
	} else {
		w.nExpiredFail++
		w.classes["failure-after-epoch-expired"] = true
	}
	w.removeFlight(f)
}

// opDisband: what initRelay does when a request is rejected after its session was acquired
// (parse error, PrepareSessionForUsage error): release without touching the accounting.
func (w *seqWorld) opDisband(t *rapid.T) {
	c := ev.For("C27")
	early := rapid.IntRange(0, 5).Draw(t, "disbandBeforePrepare") == 0
	f := w.pickFlight(t, func(f *flight) bool { return !f.prepared && (f.prepFail || early) })
	cuBefore := cuRead(&f.sess.CuSum)
	usedBefore := f.sess.VerifParent().VerifUsedCU()
	locked := f.sess.VerifIsLocked()
	pend := w.hasPending(f)
	err := f.sess.DisbandSession()
	if pend {
		w.joinPending(t)
		cuBefore = cuRead(&f.sess.CuSum)
		usedBefore = f.sess.VerifParent().VerifUsedCU()
	}
	w.logf("disband #%d %s -> %v", f.id, f.key, err == nil)
	c.Clause("held => locked: finishing a relay finds its session lock held")
	if !locked {
		w.violate(t, "releasing relay #%d: its session lock is free, the session was not exclusively held", f.id)
	}
	if !w.inFlux(pkey{f.key.Epoch, f.key.Project}) && (cuRead(&f.sess.CuSum) != cuBefore || f.sess.VerifParent().VerifUsedCU() != usedBefore) {
		w.violate(t, "releasing relay #%d without use changed the accounting", f.id)
	}
	w.classes["disband"] = true
	w.removeFlight(f)
}

// implSession looks the session up in the manager (sequential mode only: no call is running).
func (w *seqWorld) implSession(k skey) *lavasession.SingleProviderSession {
	pswc, err := w.psm.IsActiveProject(k.Epoch, k.Project)
	if err != nil || pswc == nil {
		return nil
	}
	pswc.Lock.RLock()
	defer pswc.Lock.RUnlock()
	return pswc.Sessions[k.Sid]
}

func (w *seqWorld) opUpdateCU(t *rapid.T) {
	consumer, k := w.drawKey(t)
	l := w.ledger(k)
	if l.ptr == nil {
		// a rejected first request may have left an (empty) session behind; the reward server can address it
		l.ptr = w.implSession(k)
	}
	var cur uint64
	if l.ptr != nil {
		cur = cuRead(&l.ptr.CuSum)
	}
	var newCU uint64
	switch rapid.IntRange(0, 3).Draw(t, "newCuMode") {
	case 0:
		newCU = cur - uint64(rapid.IntRange(0, int(cur)).Draw(t, "lower"))
	case 1:
		newCU = cur + uint64(rapid.IntRange(1, 5).Draw(t, "raiseSmall"))
	default:
		newCU = cur + uint64(rapid.IntRange(1, int(w.cfg.MaxCU[k.Project])).Draw(t, "raise"))
	}
	var err error
	// While the lost-update finding is listed (the unchanged UpdateSessionCU, which never waits),
	// the call is made synchronously: no goroutine, no timing. Only when the finding no longer
	// reproduces (repaired code, which may serialise the update with the relay in flight and
	// therefore block here) is the call made from a goroutine with a bounded wait.
	if l.holder != nil && !ev.Excluded(findingUpdateCU) {
		if w.pending != nil {
			t.Skip("an UpdateSessionCU is already waiting for a relay")
		}
		done := make(chan error, 1)
		go func() { done <- w.psm.UpdateSessionCU(consumer, k.Epoch, k.Sid, newCU) }()
		select {
		case err = <-done:
		case <-time.After(100 * time.Millisecond):
			w.pending = &pendingUpdate{key: k, done: done}
			w.classes["reward-server-raise-waits-for-relay"] = true
			w.logf("updateSessionCU %s %s newCU=%d -> waits for relay #%d on the session", consumer, k, newCU, l.holder.id)
			return
		}
	} else {
		err = w.psm.UpdateSessionCU(consumer, k.Epoch, k.Sid, newCU)
	}
	var after uint64
	if l.ptr != nil {
		after = cuRead(&l.ptr.CuSum)
	}
	w.logf("updateSessionCU %s %s newCU=%d (cuSum %d -> %d) -> %s", consumer, k, newCU, cur, after, errClass(err))
	if l.ptr != nil && w.valid(k.Epoch) {
		// the ledger follows what the reward server made the session worth
		pk := pkey{k.Epoch, k.Project}
		w.accepted[pk] += after - cur // unsigned wrap-around is intended: keeps the ledger congruent
		if after > cur {
			w.nUpdRaise++
			w.classes["reward-server-raise"] = true
			if l.holder != nil {
				w.classes["reward-server-raise-during-relay"] = true
			}
		}
	}
}

func (w *seqWorld) opUpdateEpoch(t *rapid.T) {
	// real callers deliver epochs in increasing order (repeats possible)
	if rapid.IntRange(0, 2).Draw(t, "epochTick") != 0 {
		t.Skip("no epoch change now")
	}
	cand := []uint64{}
	for _, e := range []uint64{20, 30, 40, 50, 60} {
		if e >= w.latest {
			cand = append(cand, e)
		}
	}
	e := rapid.SampledFrom(cand).Draw(t, "newEpoch")
	w.psm.UpdateEpoch(e)
	if e > w.latest {
		w.latest = e
		if e > w.cfg.Distance {
			w.blocked = e - w.cfg.Distance
		}
	}
	w.logf("updateEpoch %d (blocked=%d)", e, w.blocked)
	for _, f := range w.flights {
		if !w.valid(f.key.Epoch) {
			w.classes["epoch-expired-during-relay"] = true
		}
	}
}

// invariant runs after every step.
func (w *seqWorld) invariant(t *rapid.T) {
	c := ev.For("C27")
	w.pollPending()
	snap := w.psm.VerifSnapshot()
	seen := map[pkey]bool{}
	for _, p := range snap {
		pk := pkey{p.Epoch, p.ProjectID}
		if !w.valid(p.Epoch) {
			continue
		}
		seen[pk] = true
		if w.inFlux(pk) {
			continue
		}
		var sum uint64
		for _, s := range p.Sessions {
			sum += s.CuSum
		}
		c.Clause("used CU == sum of session CuSum (every project of a valid epoch, after every call)")
		if p.UsedCU != sum {
			w.violate(t, "%s: used CU %d != sum of session CuSum %d (%+v)", pk, p.UsedCU, sum, p.Sessions)
		}
		c.Clause("ledger: used CU == CU accepted and not rolled back according to the call results")
		if p.UsedCU != w.accepted[pk] {
			w.violate(t, "%s: used CU %d but the ledger of call results counts %d", pk, p.UsedCU, w.accepted[pk])
		}
	}
	// sessions the ledger knows must still be the manager's sessions while their epoch is valid
	keys := make([]skey, 0, len(w.sess))
	for k := range w.sess {
		keys = append(keys, k)
	}
	sort.Slice(keys, func(i, j int) bool { return keys[i].String() < keys[j].String() })
	for _, k := range keys {
		l := w.sess[k]
		if l.ptr == nil || !w.valid(k.Epoch) {
			continue
		}
		pk := pkey{k.Epoch, k.Project}
		if w.inFlux(pk) {
			continue
		}
		c.Clause("one session object per session id")
		found := false
		for _, p := range snap {
			if p.Epoch == k.Epoch && p.ProjectID == k.Project {
				for _, s := range p.Sessions {
					if s.SessionID == k.Sid {
						found = true
						if s.CuSum != cuRead(&l.ptr.CuSum) || s.RelayNum != l.ptr.RelayNum {
							w.violate(t, "session %s: the manager's entry (cuSum %d relayNum %d) is not the session relays were served on (cuSum %d relayNum %d)", k, s.CuSum, s.RelayNum, cuRead(&l.ptr.CuSum), l.ptr.RelayNum)
						}
					}
				}
			}
		}
		if !found && seen[pk] {
			w.violate(t, "session %s of valid epoch disappeared from the manager while its project is still there", k)
		}
		if !seen[pk] && w.accepted[pk] != 0 {
			w.violate(t, "project %s of valid epoch %d (blocked epoch %d) disappeared from the manager with %d CU accepted: its CU limit would restart from zero", pk, k.Epoch, w.blocked, w.accepted[pk])
		}
		if l.holder != nil {
			c.Clause("held => locked")
			if !l.ptr.VerifIsLocked() {
				w.violate(t, "session %s has relay #%d in flight but its lock is free", k, l.holder.id)
			}
		}
	}
}

func propC27Seq(t *rapid.T) {
	c := ev.For("C27")
	declareC27(c)
	cfg := genWorld(t)
	w := &seqWorld{cfg: cfg, psm: newPSM(cfg.Distance), sess: map[skey]*sessLedger{}, accepted: map[pkey]uint64{}, classes: map[string]bool{}}
	// trying to acquire a session that is in use costs 30 ms (TRY_LOCK_ATTEMPTS x 1 ms): budgeted
	w.lockedBudget = rapid.SampledFrom([]int{0, 0, 0, 1, 1, 2}).Draw(t, "lockedAcquireBudget")
	if len(cfg.MaxCU) == 1 && len(cfg.Consumers) == 2 {
		w.classes["two-consumers-one-project"] = true
	}
	defer func() {
		// release what is still held so that nothing leaks between cases (no checks here)
		for _, f := range w.flights {
			_ = w.psm.OnSessionFailure(f.sess, f.relayNum)
		}
		if w.pending != nil {
			select {
			case <-w.pending.done:
			case <-time.After(120 * time.Second):
			}
		}
		nontrivial := w.nAccept >= 2 && (w.nRollback+w.nLimitRej+w.nReplayRej+w.nLockedRej+w.nExpiredFail+w.nUpdRaise) >= 1 && w.nInflightOverlap >= 1
		cls := make([]string, 0, len(w.classes))
		for k := range w.classes {
			cls = append(cls, k)
		}
		sort.Strings(cls)
		c.Case(nontrivial, strings.Join(w.log, "|"), cls...)
		if nontrivial {
			c.Sample(map[string]any{"mode": "sequential", "world": cfg, "history": w.log})
		}
	}()
	t.Repeat(map[string]func(*rapid.T){
		"acquire":     w.opAcquire,
		"acquire2":    w.opAcquire,
		"acquire3":    w.opAcquire,
		"prepare":     w.opPrepare,
		"prepare2":    w.opPrepare,
		"prepare3":    w.opPrepare,
		"done":        w.opDone,
		"done2":       w.opDone,
		"fail":        w.opFail,
		"fail2":       w.opFail,
		"disband":     w.opDisband,
		"updateCU":    w.opUpdateCU,
		"updateEpoch": w.opUpdateEpoch,
		"":            w.invariant,
	})
}

var declareOnce sync.Once

func declareC27(c *ev.Collector) {
	declareOnce.Do(func() {
		c.SetRule("sequential mode: a rapid state machine over acquire (GetSession, RegisterProviderSessionWithConsumer on first contact) / PrepareSessionForUsage / OnSessionDone / OnSessionFailure / DisbandSession / UpdateSessionCU / UpdateEpoch with up to 3 relays in flight, 1-2 consumers (own or shared project), 1-3 session ids, 2-3 epochs, checked against a ledger of call results after every call. Stress mode: 2-4 goroutines run generated scripts of such relays on a shared manager under the race detector. Non-trivial: >= 2 accepted relays, overlapping relays and at least one of rollback / limit rejection / replay rejection / locked re-acquire / failure after epoch expiry / reward-server raise (sequential), or >= 2 accepted relays on one project with relays of different workers overlapping on the project or contending for a session lock (stress). Distinct: different call history (sequential) or different scripts (stress).")
		c.Assume(
			"max CU of a project in an epoch and the consumer->project mapping are fixed facts (as delivered by the chain); RegisterProviderSessionWithConsumer always gets the same values for them",
			"UpdateEpoch is called with non-decreasing epochs, as the epoch updater does",
			"OnSessionDone/OnSessionFailure get the relay number of the request that acquired the session; every acquired session is released by exactly one of Done/Failure/DisbandSession",
			"no CU-limit or epoch-validity claim is made for epochs older than latest epoch - blockDistanceForEpochValidity",
		)
		declareStress(c)
	})
}

// propC27 mixes both modes under one rapid check (one seed, one fail file): about one case in six
// is a concurrent one.
func propC27(t *rapid.T) {
	if rapid.IntRange(0, 5).Draw(t, "mode") == 0 {
		propC27Stress(t)
		return
	}
	propC27Seq(t)
}

func TestC27(t *testing.T) {
	rapid.Check(t, propC27)
}

// TestC27Seq runs the sequential mode alone.
func TestC27Seq(t *testing.T) {
	rapid.Check(t, propC27Seq)
}
