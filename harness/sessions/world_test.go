package sessions

import (
	"context"
	"fmt"
	"sort"
	"strings"
	"sync/atomic"

	"github.com/lavanet/lava/v5/protocol/common"
	"github.com/lavanet/lava/v5/protocol/lavasession"
	"github.com/lavanet/lava/v5/utils"
	"pgregory.net/rapid"
)

// ---- shared world for the C27 checks ---------------------------------------------------------
//
// A world is one real ProviderSessionManager plus the static facts the provider server would get
// from the chain for the relays it sees: which project a consumer belongs to, the project's max CU
// per epoch, how many blocks of history are kept (blockDistanceForEpochValidity).

type worldCfg struct {
	Distance  uint64            `json:"distance"`
	Epochs    []uint64          `json:"epochs"`
	Consumers []string          `json:"consumers"`
	Project   map[string]string `json:"project"`
	MaxCU     map[string]uint64 `json:"max_cu"`
	Threshold float64           `json:"threshold"`
	Sessions  int               `json:"sessions"`
}

var allEpochs = []uint64{20, 30, 40}

func genWorld(t *rapid.T) worldCfg {
	w := worldCfg{Project: map[string]string{}, MaxCU: map[string]uint64{}}
	w.Distance = rapid.SampledFrom([]uint64{10, 20}).Draw(t, "distance")
	nEp := rapid.IntRange(2, 3).Draw(t, "nEpochs")
	w.Epochs = append([]uint64{}, allEpochs[:nEp]...)
	nCons := rapid.IntRange(1, 2).Draw(t, "nConsumers")
	shared := nCons == 2 && rapid.Bool().Draw(t, "sharedProject")
	for i := 0; i < nCons; i++ {
		c := fmt.Sprintf("consumer%d", i)
		w.Consumers = append(w.Consumers, c)
		p := fmt.Sprintf("project%d", i)
		if shared {
			p = "project0"
		}
		w.Project[c] = p
		if _, ok := w.MaxCU[p]; !ok {
			w.MaxCU[p] = uint64(rapid.IntRange(20, 120).Draw(t, "maxCU_"+p))
		}
	}
	w.Threshold = rapid.SampledFrom([]float64{0, 0.1, 0.5}).Draw(t, "threshold")
	w.Sessions = rapid.IntRange(1, 3).Draw(t, "nSessions")
	return w
}

func (w worldCfg) projects() []string {
	var ps []string
	for p := range w.MaxCU {
		ps = append(ps, p)
	}
	sort.Strings(ps)
	return ps
}

func newPSM(distance uint64) *lavasession.ProviderSessionManager {
	return lavasession.NewProviderSessionManager(&lavasession.RPCProviderEndpoint{
		NetworkAddress: lavasession.NetworkAddressData{Address: "127.0.0.1:6666"},
		ChainID:        "LAV1",
		ApiInterface:   "tendermint",
		Geolocation:    1,
		NodeUrls:       []common.NodeUrl{{Url: "http://localhost:666"}},
	}, distance)
}

var guidCounter uint64

func relayCtx() context.Context {
	return utils.WithUniqueIdentifier(context.Background(), atomic.AddUint64(&guidCounter, 1))
}

// acquire does what RPCProviderServer.getSingleProviderSession does: GetSession, and on
// ConsumerNotRegisteredYet the registration path with the chain's facts for that consumer.
func (w worldCfg) acquire(psm *lavasession.ProviderSessionManager, consumer string, epoch, sid, relayNum uint64) (*lavasession.SingleProviderSession, bool, error) {
	ctx := relayCtx()
	sess, err := psm.GetSession(ctx, consumer, epoch, sid, relayNum)
	registered := false
	if err != nil && lavasession.ConsumerNotRegisteredYet.Is(err) {
		registered = true
		project := w.Project[consumer]
		sess, err = psm.RegisterProviderSessionWithConsumer(ctx, consumer, epoch, sid, relayNum, w.MaxCU[project], 3, project)
	}
	if err != nil {
		return nil, registered, err
	}
	return sess, registered, nil
}

type skey struct {
	Epoch   uint64
	Project string
	Sid     uint64
}

func (k skey) String() string { return fmt.Sprintf("%d/%s/s%d", k.Epoch, k.Project, k.Sid) }

type pkey struct {
	Epoch   uint64
	Project string
}

func (k pkey) String() string { return fmt.Sprintf("%d/%s", k.Epoch, k.Project) }

func cuRead(p *uint64) uint64 { return atomic.LoadUint64(p) }

func errClass(err error) string {
	switch {
	case err == nil:
		return "ok"
	case lavasession.InvalidEpochError.Is(err):
		return "invalid-epoch"
	case lavasession.MaximumCULimitReachedByConsumer.Is(err):
		return "max-cu"
	case lavasession.ProviderConsumerCuMisMatch.Is(err):
		return "cu-mismatch"
	case lavasession.SessionOutOfSyncError.Is(err):
		if strings.Contains(err.Error(), "tryLockForUse") {
			return "locked"
		}
		return "out-of-sync"
	case lavasession.ConsumerNotRegisteredYet.Is(err):
		return "not-registered"
	}
	return "other"
}
