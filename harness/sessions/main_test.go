package sessions

import (
	"bytes"
	"fmt"
	"io"
	"os"
	"os/exec"
	"path/filepath"
	"regexp"
	"runtime"
	"sort"
	"strings"
	"syscall"
	"testing"

	"github.com/lavanet/lava/v5/utils"
	"github.com/rs/zerolog"
	zerologlog "github.com/rs/zerolog/log"

	"verifharness/internal/ev"
)

// The sessions checks are built with -race. The Go race detector marks the running test as failed
// for *every* report, including the one benign pattern the unchanged repository has (UpdateEpoch
// stores blockedEpochHeight/currentEpoch with plain writes under the manager's write lock while
// GetSession reads them with atomic loads without the lock). Therefore TestMain re-executes the
// test binary as a child with GORACE=halt_on_error=0 log_path=..., reads the detector's reports
// afterwards and decides:
//   - reports that match the allowlisted epoch-height pattern only: informational, the child's
//     "race detected during execution of test" failure is cancelled;
//   - reports whose racing accesses are inside protocol/lavasession: a C27 violation (a racy
//     execution has no defined accounting outcome; the property quantifies over all schedules);
//   - reports without lavasession frames at the racing accesses: harness error (inconclusive).
func TestMain(m *testing.M) {
	if os.Getenv("VERIF_SESS_CHILD") == "1" || !raceEnabled {
		quietLogs()
		code := m.Run()
		ev.Flush()
		os.Exit(code)
	}
	os.Exit(runChild())
}

func quietLogs() {
	utils.SetGlobalLoggingLevel("fatal")
	zerologlog.Logger = zerolog.Nop()
}

func runChild() int {
	runtime.LockOSThread() // Pdeathsig is bound to the thread that starts the child
	base := os.Getenv("VERIF_EV_DIR")
	if base == "" {
		base = os.TempDir()
	}
	_ = os.MkdirAll(base, 0o755)
	dir, err := os.MkdirTemp(base, "racelog")
	if err != nil {
		fmt.Println(ev.HarnessError("cannot create race log dir: %v", err))
		return 2
	}
	defer os.RemoveAll(dir)
	cmd := exec.Command(os.Args[0], os.Args[1:]...)
	// the driver may kill this process on its own timeout: take the child along
	cmd.SysProcAttr = &syscall.SysProcAttr{Pdeathsig: syscall.SIGKILL}
	cmd.Env = append(os.Environ(), "VERIF_SESS_CHILD=1", "GORACE=halt_on_error=0 log_path="+filepath.Join(dir, "race"))
	var buf bytes.Buffer
	w := io.MultiWriter(os.Stdout, &buf)
	cmd.Stdout = w
	cmd.Stderr = w
	runErr := cmd.Run()
	code := 0
	if runErr != nil {
		code = 1
		if ee, ok := runErr.(*exec.ExitError); ok {
			code = ee.ExitCode()
		}
	}
	var reports []raceReport
	files, _ := filepath.Glob(filepath.Join(dir, "race*"))
	sort.Strings(files)
	for _, f := range files {
		b, err := os.ReadFile(f)
		if err == nil {
			reports = append(reports, parseRaceReports(string(b))...)
		}
	}
	out := buf.String()
	if i := strings.Index(out, "fatal error: concurrent map"); i >= 0 && code != 0 {
		// the runtime's own detection of unsynchronised map access kills the process
		tail := out[i:]
		if len(tail) > 3000 {
			tail = tail[:3000]
		}
		if strings.Contains(tail, "protocol/lavasession.") {
			fmt.Println(ev.Violation("C27", "the Go runtime aborted with %q inside protocol/lavasession under a legal concurrent schedule (unsynchronised access to session manager maps)", strings.SplitN(tail, "\n", 2)[0]))
			return 1
		}
	}
	if len(reports) == 0 {
		return code
	}
	if strings.Contains(out, "VERIF-VIOLATION") && code != 0 {
		// the harness oracles already reported; the race reports are secondary
		fmt.Printf("[sessions] additionally %d race detector report(s); first:\n%s\n", len(reports), reports[0].text)
		return code
	}
	var benign, sut, other []raceReport
	for _, r := range reports {
		switch r.kind() {
		case "benign-epoch-height":
			benign = append(benign, r)
		case "lavasession":
			sut = append(sut, r)
		default:
			other = append(other, r)
		}
	}
	if len(benign) > 0 {
		fmt.Printf("[sessions] %d race report(s) matched the allowlisted epoch-height pattern (UpdateEpoch plain store vs lock-free atomic load); ignored\n", len(benign))
	}
	if len(sut) > 0 {
		r := sut[0]
		fmt.Printf("--- race detector report (1 of %d) ---\n%s\n", len(sut), r.text)
		fmt.Println(ev.Violation("C27", "data race on provider session state under a legal concurrent schedule: %s <-> %s (the Go race detector; a racy execution has no defined CU accounting)", r.a.top(), r.b.top()))
		if code == 0 {
			code = 1
		}
		return code
	}
	if len(other) > 0 {
		fmt.Printf("--- race detector report outside lavasession ---\n%s\n", other[0].text)
		fmt.Println(ev.HarnessError("race report that does not involve lavasession code at the racing accesses"))
		return 2
	}
	// only benign reports: cancel a failure that is due to the race detector alone
	if code != 0 && !strings.Contains(out, "[rapid] failed") && !strings.Contains(out, "[rapid] panic") &&
		!strings.Contains(out, "VERIF-") && !strings.Contains(out, "panic:") && !strings.Contains(out, "fatal error:") &&
		onlyRaceFailures(out) {
		return 0
	}
	return code
}

var failLine = regexp.MustCompile(`(?m)^\s+\S+\.go:\d+: (.*)$`)

// onlyRaceFailures: every "file.go:N: msg" line that belongs to a failing test is the testing
// package's own "race detected during execution of test".
func onlyRaceFailures(out string) bool {
	if !strings.Contains(out, "race detected during execution of test") {
		return false
	}
	for _, m := range failLine.FindAllStringSubmatch(out, -1) {
		msg := m[1]
		if strings.HasPrefix(msg, "race detected during execution of test") || strings.HasPrefix(msg, "[rapid] OK") {
			continue
		}
		return false
	}
	return true
}

type raceStack struct {
	header string
	funcs  []string
}

// top returns the innermost lavasession frame (skipping sync/atomic wrappers), or the innermost frame.
func (s raceStack) top() string {
	for _, f := range s.funcs {
		if strings.Contains(f, "protocol/lavasession.") {
			return shortFn(f)
		}
		if strings.HasPrefix(f, "sync/atomic.") || strings.HasPrefix(f, "sync.") || strings.HasPrefix(f, "runtime.") || strings.HasPrefix(f, "internal/") {
			continue
		}
		return shortFn(f)
	}
	if len(s.funcs) > 0 {
		return shortFn(s.funcs[0])
	}
	return "?"
}

func shortFn(f string) string {
	if i := strings.LastIndex(f, "/"); i >= 0 {
		f = f[i+1:]
	}
	return strings.TrimSuffix(f, "()")
}

type raceReport struct {
	text string
	a, b raceStack
}

func (s raceStack) firstIsAtomicLoad() bool {
	return len(s.funcs) > 0 && strings.HasPrefix(s.funcs[0], "sync/atomic.Load")
}

func (r raceReport) kind() string {
	ta, tb := r.a.top(), r.b.top()
	inA, inB := strings.HasPrefix(ta, "lavasession."), strings.HasPrefix(tb, "lavasession.")
	isUpd := func(s string) bool { return s == "lavasession.(*ProviderSessionManager).UpdateEpoch" }
	// The reading side: an atomic load (IsValidEpoch / GetCurrentEpochAtomic; the detector often
	// drops the inlined lavasession frames, so the atomic load itself is the signature: the only
	// fields UpdateEpoch stores that anybody loads atomically are the two epoch heights), or the
	// plain read of blockedEpochHeight for the log line in GetSession.
	isEpochRead := func(st raceStack, top string) bool {
		if st.firstIsAtomicLoad() {
			return true
		}
		switch top {
		case "lavasession.(*ProviderSessionManager).atomicReadBlockedEpoch",
			"lavasession.(*ProviderSessionManager).GetBlockedEpochHeight",
			"lavasession.(*ProviderSessionManager).IsValidEpoch",
			"lavasession.(*ProviderSessionManager).GetCurrentEpochAtomic",
			"lavasession.(*ProviderSessionManager).GetSession":
			return true
		}
		return false
	}
	if (isUpd(ta) && !r.a.firstIsAtomicLoad() && isEpochRead(r.b, tb)) || (isUpd(tb) && !r.b.firstIsAtomicLoad() && isEpochRead(r.a, ta)) {
		return "benign-epoch-height"
	}
	if inA && inB {
		return "lavasession"
	}
	if inA || inB {
		// one racing access is in the code under test, the other one directly in harness code
		return "mixed"
	}
	return "other"
}

var accessHdr = regexp.MustCompile(`^(Read|Write|Previous read|Previous write|Atomic read|Atomic write|Previous atomic read|Previous atomic write) at 0x[0-9a-f]+ by (goroutine \d+|main goroutine):$`)

func parseRaceReports(s string) []raceReport {
	var out []raceReport
	for _, blk := range strings.Split(s, "==================") {
		if !strings.Contains(blk, "WARNING: DATA RACE") {
			continue
		}
		r := raceReport{text: strings.TrimSpace(blk)}
		var stacks []raceStack
		var cur *raceStack
		for _, ln := range strings.Split(blk, "\n") {
			t := strings.TrimSpace(ln)
			if accessHdr.MatchString(t) {
				stacks = append(stacks, raceStack{header: t})
				cur = &stacks[len(stacks)-1]
				continue
			}
			if strings.HasPrefix(t, "Goroutine ") {
				cur = nil
				continue
			}
			if t == "" {
				cur = nil
				continue
			}
			if cur != nil && strings.HasSuffix(t, ")") && !strings.Contains(t, ".go:") {
				cur.funcs = append(cur.funcs, t)
			}
		}
		if len(stacks) >= 2 {
			r.a, r.b = stacks[0], stacks[1]
		} else if len(stacks) == 1 {
			r.a = stacks[0]
		}
		out = append(out, r)
	}
	return out
}
