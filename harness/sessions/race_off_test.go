//go:build !race

package sessions

const raceEnabled = false
