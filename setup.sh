#!/usr/bin/env bash
# Builds the harness module definition from /repo/go.mod (offline) and warms the build cache.
# Idempotent; called by MANIFEST.setup_cmd and by ./check whenever /repo/go.mod changed.
set -euo pipefail
cd "$(dirname "$0")"
export GOFLAGS=-mod=mod GOPROXY=off GOSUMDB=off GOTOOLCHAIN=local
REPO=${VERIF_REPO:-/repo}
H=harness
mkdir -p "$H" evidence replays .bin
# An alternative repo tree (scratch worktree for mutation testing) gets its own mod file, used
# through -modfile, so that /repo-based builds are not disturbed.
MOD=go.mod
if [ "$REPO" != "/repo" ]; then MOD="alt-$(echo -n "$REPO" | md5sum | cut -c1-8).mod"; fi
SUM="${MOD%.mod}.sum"

gen_gomod() {
  {
    sed -e 's#^module .*#module verifharness#' -e 's#^\tpgregory.net/rapid v1.1.0 // indirect#\tpgregory.net/rapid v1.3.0#' "$REPO/go.mod"
    echo
    echo "require github.com/lavanet/lava/v5 v5.0.0"
    echo "replace github.com/lavanet/lava/v5 => $REPO"
  } > "$H/go.mod.new.$$"
  if ! cmp -s "$H/go.mod.new.$$" "$H/$MOD.gen" 2>/dev/null || [ ! -f "$H/$MOD" ]; then
    cp "$REPO/go.sum" "$H/$SUM"
    cp "$H/go.mod.new.$$" "$H/$MOD"
    cp "$H/go.mod.new.$$" "$H/$MOD.gen"
  fi
  rm -f "$H/go.mod.new.$$"
}
gen_gomod

if [ "${1:-}" = "--gomod-only" ]; then exit 0; fi

# Warm the cache: compile every harness test binary once (vet off, tag verif).
cd "$H"
pkgs=$(go list -tags verif ./... 2>/dev/null | grep -v '/internal/' || true)
go build -tags verif ./...
for p in $pkgs; do
  name=$(basename "$p")
  race=""
  case "$name" in sessions|limiter) race="-race";; esac
  go test -c -tags verif -vet=off $race -o "../.bin/$name.test" "$p" >/dev/null
done
echo "setup ok"
