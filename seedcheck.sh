#!/usr/bin/env bash
# seedcheck.sh <dir with patch.diff, demo*, meta.json> <Cxx> [worktree]
# Confirms a seeded change (compiles, existing tests of touched packages pass, demo fails with it and passes
# without it) in a scratch worktree and runs the property's quick check against the changed tree.
set -u
D=$1; PROP=$2; WT=${3:-/root/scratch/sc-wt-$$}
export GOFLAGS=-mod=mod GOPROXY=off GOSUMDB=off GOTOOLCHAIN=local
git -C /repo worktree add -q --detach "$WT" 2>/dev/null || { git -C "$WT" checkout -q --detach "$(git -C /repo rev-parse HEAD)"; git -C "$WT" checkout -q -- .; git -C "$WT" clean -fdq; }
cd "$WT" || exit 9
if ! git apply --check "$D/patch.diff" 2>/dev/null; then echo "SEED patch does not apply"; git -C /repo worktree remove --force "$WT"; exit 9; fi
git apply "$D/patch.diff"
pkgs=$(git diff --name-only | xargs -n1 dirname | sort -u | sed 's#^#./#')
echo "SEED touched packages: $pkgs"
if ! go build ./... 2>&1 | tail -5; then echo "SEED build failed"; fi
echo "SEED existing tests of touched packages (with patch):"
go test -vet=off -count=1 $pkgs 2>&1 | grep -v "no test files" | tail -8
# demo
demo=$(ls "$D" | grep -E '^demo' | head -1)
dest=$(head -3 "$D/$demo" | grep -oE '(x|protocol|utils|ecosystem|app|testutil)/[A-Za-z0-9_/.-]+' | head -1)
echo "SEED demo file $demo -> ${dest:-?}"
if [ -n "${dest:-}" ]; then
  case "$dest" in *.go) target="$dest";; *) target="$dest/$demo";; esac
  mkdir -p "$(dirname "$target")"; cp "$D/$demo" "$target"
  dpkg="./$(dirname "$target")"
  echo "SEED demo with patch:"; go test -vet=off -count=1 -run 'Demo|Seed|Regress|Verif' "$dpkg" 2>&1 | tail -4
  # (no git stash: the stash is shared by all worktrees of /repo)
  git apply -R "$D/patch.diff"
  echo "SEED demo without patch:"; go test -vet=off -count=1 -run 'Demo|Seed|Regress|Verif' "$dpkg" 2>&1 | tail -4
  git apply "$D/patch.diff"
  rm -f "$target"
fi
cd /verif
cp evidence/$PROP.json /tmp/seedcheck.ev.$$ 2>/dev/null
echo "SEED running ./check $PROP against the changed tree"
VERIF_REPO=$WT timeout 3000 ./check $PROP > /tmp/seedcheck.$$.log 2>&1; rc=$?
grep -m2 "VERIF-VIOLATION\|\[rapid\] panic\|\[rapid\] failed" /tmp/seedcheck.$$.log | cut -c1-400
grep "^VIOLATION\|^OK\|^KNOWN\|inconclusive\|build failed" /tmp/seedcheck.$$.log | head -5
echo "SEED check rc=$rc"
[ -f /tmp/seedcheck.ev.$$ ] && mv /tmp/seedcheck.ev.$$ evidence/$PROP.json
rm -f /tmp/seedcheck.$$.log /verif/replays/$PROP/s[0-9]*-* /verif/replays/$PROP/last-violation* /verif/replays/$PROP/regression-*
git -C /repo worktree remove --force "$WT"
rm -f /verif/harness/alt-$(echo -n "$WT" | md5sum | cut -c1-8).* /verif/.bin/*alt-$(echo -n "$WT" | md5sum | cut -c1-8)*
