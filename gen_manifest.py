#!/usr/bin/env python3
"""Regenerates MANIFEST.json from props.d/*.json, not_applicable.json and hooks.json."""
import json, os
ROOT = os.path.dirname(os.path.abspath(__file__))
from props import PROPS
ids = [json.loads(l)["id"] for l in open(os.path.join(ROOT, "properties.jsonl"))]
hooks = json.load(open(os.path.join(ROOT, "hooks.json")))
na = json.load(open(os.path.join(ROOT, "not_applicable.json")))
# only reviewed checks are claimed: ids listed in claimed.txt (maintained by hand after review)
tracked = set(open(os.path.join(ROOT, "claimed.txt")).read().split())
checks = []
for pid in ids:
    if pid not in PROPS or pid not in tracked:
        continue  # only reviewed checks (claimed.txt) are claimed
    c = PROPS[pid]
    m = c["manifest"]
    checks.append({
        "property_id": pid,
        "quick_cmd": "./check %s --tier quick" % pid,
        "thorough_cmd": "./check %s --tier thorough" % pid,
        "evidence_file": "/verif/evidence/%s.json" % pid,
        "replay_cmd_template": "./check %s --replay {path}" % pid,
        "engine": m.get("engine", ""),
        "level_claimed": {"category": c.get("level", "exploration"), "text": m["level_text"], "design_ref": m.get("design_ref", "")},
        "level_note": m["level_note"],
        "technique": m["technique"],
    })
claimed = {c["property_id"] for c in checks}
na_list = [x for x in na if x["property_id"] not in claimed]
for pid in ids:
    if pid not in claimed and pid not in {x["property_id"] for x in na_list}:
        na_list.append({"property_id": pid, "reason": "not yet implemented in this revision of the framework (planned: see DESIGN.md section 6); no claim is made"})
man = {
    "version": 1,
    "setup_cmd": "./setup.sh",
    "hooks": hooks,
    "engines": json.load(open(os.path.join(ROOT, "engines.json"))),
    "checks": checks,
    "not_applicable": na_list,
    "notes": "All checks: property-based testing / fuzzing (pgregory.net/rapid v1.3.0, native go fuzz in thorough tier). Driver: ./check Cnn --tier quick|thorough; exit 0 held, 1 VIOLATION, 2 inconclusive. Known findings: known_findings.json. Design: DESIGN.md.",
}
json.dump(man, open(os.path.join(ROOT, "MANIFEST.json"), "w"), indent=1)
print("claimed", len(checks), "not_applicable", len(na_list))
