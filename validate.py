#!/opt/veriftools/pyvenv/bin/python
import json, glob, sys, jsonschema
jsonschema.validate(json.load(open('/verif/MANIFEST.json')), json.load(open('/root/.vp/MANIFEST.schema.json')))
s = json.load(open('/root/.vp/EVIDENCE.schema.json'))
claimed = set(open('/verif/claimed.txt').read().split())
bad = 0
for f in sorted(glob.glob('/verif/evidence/*.json')):
    pid = f.split('/')[-1][:-5]
    try:
        d = json.load(open(f))
        jsonschema.validate(d, s)
        if d.get('violations'):
            raise Exception('evidence records %d violations' % d['violations'])
    except Exception as e:
        tag = 'CLAIMED' if pid in claimed else 'unclaimed'
        print("INVALID %s (%s): %s" % (f, tag, str(e).split('\n')[0]))
        if pid in claimed: bad += 1
missing = [p for p in claimed if not glob.glob('/verif/evidence/%s.json' % p)]
if missing: print("MISSING evidence for claimed:", missing); bad += 1
print("manifest valid; %d evidence files; %d problems among claimed" % (len(glob.glob('/verif/evidence/*.json')), bad))
sys.exit(1 if bad else 0)
